package mainchain

import (
	"crypto/sha256"
	"encoding/hex"
	"encoding/json"
	"math/big"
	"math/rand"
	"path/filepath"
	"slices"
	"sort"
	"strconv"
	"strings"
	"testing"

	"github.com/nspcc-dev/neo-go/pkg/core/native/nativenames"
	"github.com/nspcc-dev/neo-go/pkg/core/native/noderoles"
	"github.com/nspcc-dev/neo-go/pkg/core/state"
	"github.com/nspcc-dev/neo-go/pkg/crypto/keys"
	"github.com/nspcc-dev/neo-go/pkg/encoding/bigint"
	"github.com/nspcc-dev/neo-go/pkg/neotest"
	"github.com/nspcc-dev/neo-go/pkg/util"
	"github.com/nspcc-dev/neo-go/pkg/vm/stackitem"
	"github.com/nspcc-dev/neo-go/pkg/wallet"
	"github.com/stretchr/testify/require"

	"verif/harness/chain"
)

// GStep is one invocation in the vocabulary of MainChainGas.tla (the ev record). Amounts are 3-limb
// little-endian numbers in base 10^6.
type GStep struct {
	Act string   `json:"act"`
	S   []string `json:"S"`
	U   string   `json:"u"`
	V   string   `json:"v"`
	Amt []int64  `json:"amt"`
	W   int64    `json:"w"`
	K   string   `json:"k"`
	ID  string   `json:"id"`
	Gap int      `json:"gap"` // blocks since the previous step (every step is a block of its own: >= 1)
	X   X        `json:"x,omitempty"` // shapes of arguments the Spec ignores (see shapes_test.go)
}

// GScenario is a sequence of steps on a fresh deployment.
type GScenario struct {
	Notary bool    `json:"notary"`
	NS     int     `json:"ns"`  // keys stored in the NeoFS contract
	NC     int     `json:"nc"`  // chain committee size
	Idx    int     `json:"idx"` // index of the Alphabet contract
	Src    string  `json:"src"`
	Steps  []GStep `json:"steps"`
	// X: scenario-level shapes: bytes behind the decision ids, the Alphabet contract's name/total arguments
	X X `json:"x,omitempty"`
}

const limbBase = 1_000_000

var (
	gasUsers = []string{"u1", "u2"}
	gasCands = []string{"c1", "c2"}
	gasKeys  = []string{"k1", "k2", "k3", "k4"}
	gasIR    = []string{"r1", "r2", "r3", "r4", "r5", "r6", "r7"}
	gasCtrs  = []string{"neofs", "proc", "proxy", "alph"}
)

func toBig(l []int64) *big.Int {
	b := new(big.Int)
	for i := len(l) - 1; i >= 0; i-- {
		b.Mul(b, big.NewInt(limbBase))
		b.Add(b, big.NewInt(l[i]))
	}
	return b
}

func fromInt(x int64) []int64 { return []int64{x % limbBase, x / limbBase % limbBase, x / limbBase / limbBase} }

type gworld struct {
	t      *testing.T
	c      *chain.Chain
	sc     *GScenario
	h      map[string]util.Uint160 // account name -> script hash
	acctN  *names                  // script hash (BE) -> account name
	sg     map[string]neotest.Signer
	keyN   *names // candidate public keys
	skN    *names // public keys of k1..k4 (voters in the stored ballots)
	idN    *names
	stored []any // the stored list, in order
	lastH  int64
	irPubs [][]byte
	token  util.Uint160
	roles  util.Uint160
	bad    []string
}

func (w *gworld) toL(b *big.Int, what string) []int64 {
	if b == nil || b.Sign() < 0 || b.Cmp(new(big.Int).Exp(big.NewInt(10), big.NewInt(18), nil)) >= 0 {
		w.bad = append(w.bad, what)
		return []int64{0, 0, 0}
	}
	x := new(big.Int).Set(b)
	out := make([]int64, 3)
	m := new(big.Int)
	for i := 0; i < 3; i++ {
		x.QuoRem(x, big.NewInt(limbBase), m)
		out[i] = m.Int64()
	}
	return out
}

func newGWorld(t *testing.T, sc *GScenario, seed int64) *gworld {
	c := chain.New(t, sc.NC, seed)
	w := &gworld{t: t, c: c, sc: sc, h: map[string]util.Uint160{}, acctN: newNames(), sg: map[string]neotest.Signer{}, keyN: newNames(),
		skN: newNames(), idN: newNames()}
	reg := func(n string, h util.Uint160) {
		w.h[n] = h
		w.acctN.reg(n, h.BytesBE())
	}
	for _, u := range gasUsers {
		w.sg[u] = c.NewUser(u, 100000_0000_0000)
		c.FundNEO(w.sg[u].ScriptHash(), 1000)
		reg(u, w.sg[u].ScriptHash())
	}
	for _, cn := range gasCands {
		w.sg[cn] = c.NewUser(cn, 100_0000_0000)
		reg(cn, w.sg[cn].ScriptHash())
		w.keyN.reg(cn, chain.Pub(w.sg[cn]))
	}
	var stored []any
	var storedPriv []*keys.PrivateKey
	for i, k := range gasKeys {
		w.sg[k] = c.NewUser(k, 0)
		reg(k, w.sg[k].ScriptHash())
		w.skN.reg(k, chain.Pub(w.sg[k]))
		if i < sc.NS {
			stored = append(stored, chain.Pub(w.sg[k]))
			storedPriv = append(storedPriv, chain.Priv(w.sg[k]))
		}
	}
	// 2/3+1 multi-signature account of the STORED keys
	pubs := make(keys.PublicKeys, len(storedPriv))
	for i := range storedPriv {
		pubs[i] = storedPriv[i].PublicKey()
	}
	accs := make([]*wallet.Account, len(storedPriv))
	for i := range storedPriv {
		accs[i] = wallet.NewAccountFromPrivateKey(storedPriv[i])
		require.NoError(t, accs[i].ConvertMultisig(len(storedPriv)*2/3+1, slices.Clone(pubs)))
	}
	w.sg["STORED"] = neotest.NewMultiSigner(accs...)
	// k/2+1 multi-signature account of the STORED keys (the "committee majority" of the stored list)
	maj := make([]*wallet.Account, len(storedPriv))
	for i := range storedPriv {
		maj[i] = wallet.NewAccountFromPrivateKey(storedPriv[i])
		require.NoError(t, maj[i].ConvertMultisig(len(storedPriv)/2+1, slices.Clone(pubs)))
	}
	w.sg["STOREDMAJ"] = neotest.NewMultiSigner(maj...)
	for _, r := range gasIR {
		k := chain.DetKey(seed, "ir|"+r)
		w.irPubs = append(w.irPubs, k.PublicKey().Bytes())
		reg(r, k.PublicKey().GetScriptHash())
	}
	w.sg["X"] = c.NewUser("stranger", 0)
	for i := 0; i < 8; i++ {
		if i < sc.NC {
			w.sg["m"+strconv.Itoa(i)] = c.Members[i]
		} else {
			w.sg["m"+strconv.Itoa(i)] = c.NewUser("nomember"+strconv.Itoa(i), 0)
		}
	}
	w.stored = stored
	for i, id := range []string{"i1", "i2", "j1", "a1"} {
		w.idN.reg(id, idBytes(sc.X["ids"], i, "id-"+id))
	}
	for _, cn := range gasCands {
		h := sha256.Sum256(append(append([]byte{}, chain.Pub(w.sg[cn])...), []byte("delete")...))
		w.idN.reg("del:"+cn, h[:])
	}

	proc := c.Compile("processing")
	nf := c.Compile("neofs")
	c.Deploy(nf, []any{!sc.Notary, proc.Hash, stored, []any{"WithdrawFee", int64(100_0000), "InnerRingCandidateFee", int64(1_0000_0000)}})
	c.Deploy(proc, []any{nf.Hash})
	proxy := c.Compile("proxy")
	c.Deploy(proxy, nil)
	alph := c.Compile("alphabet")
	total := int64(sc.NC) // stored under "threshold", never read by the contract
	switch sc.X["total"] {
	case "0":
		total = 0
	case "1":
		total = 1
	case "100":
		total = 100
	case "-1":
		total = -1
	}
	name := "Az"
	switch sc.X["name"] {
	case "empty":
		name = ""
	case "long":
		name = strings.Repeat("Zhivete", 9)
	}
	c.Deploy(alph, []any{false, util.Uint160{9}, proxy.Hash, name, int64(sc.Idx), total})
	tok := c.CompileDir(filepath.Join(harnessRoot(), "contracts", "mainchaintoken"))
	c.Deploy(tok, nil)
	w.token = tok.Hash
	reg("neofs", nf.Hash)
	reg("proc", proc.Hash)
	reg("proxy", proxy.Hash)
	reg("alph", alph.Hash)
	w.acctN.reg("q20", bigint.ToBytes(dataArg("int20", nil).(*big.Int)))
	w.roles = c.E.NativeHash(t, nativenames.Designation)
	return w
}

// signers maps model signer names to signers; the recorded set is normalised: when the committee account
// coincides with the Alphabet account (n in {1,4}) either name implies the other.
func (w *gworld) signers(S []string) ([]neotest.Signer, []string) {
	var out []neotest.Signer
	set := map[string]bool{}
	same := w.c.Cmt.ScriptHash() == w.c.Alpha.ScriptHash()
	for _, s := range S {
		set[s] = true
		switch s {
		case "ALPHA":
			out = append(out, w.c.Alpha)
			if same {
				set["CMT"] = true
			}
		case "CMT":
			out = append(out, w.c.Cmt)
			if same {
				set["ALPHA"] = true
			}
		case "STORED", "STOREDMAJ":
			out = append(out, w.sg[s])
			if w.sg["STORED"].ScriptHash() == w.sg["STOREDMAJ"].ScriptHash() { // k in {1,2,4}: one account
				set["STORED"], set["STOREDMAJ"] = true, true
			}
		default:
			sg, ok := w.sg[s]
			require.True(w.t, ok, "unknown signer %s", s)
			out = append(out, sg)
		}
	}
	names := make([]string, 0, len(set))
	for s := range set {
		names = append(names, s)
	}
	sort.Strings(names)
	return out, names
}

func (w *gworld) acct(n string) util.Uint160 {
	h, ok := w.h[n]
	require.True(w.t, ok, "unknown account %q", n)
	return h
}

func (w *gworld) exec(st GStep) chain.Rec {
	sg, names := w.signers(st.S)
	c := w.c
	g := gasHash(c)
	amt := toBig(st.Amt)
	var r *chain.Result
	switch st.Act {
	case "deposit":
		shapes, ok := depositShapes[st.K]
		require.True(w.t, ok, "unknown data kind %q", st.K)
		sh := st.X["data"]
		if !slices.Contains(shapes, sh) {
			sh = shapes[0]
		}
		r = c.Run(g, sg, "transfer", w.acct(st.U), w.acct("neofs"), amt, dataArg(sh, w.h[st.V].BytesBE()))
	case "withdraw":
		r = c.Run(w.acct("neofs"), sg, "withdraw", w.acct(st.U), st.W)
	case "cheque":
		r = c.Run(w.acct("neofs"), sg, "cheque", w.idN.val(w.t, st.ID), w.acct(st.V), amt, lockArg(st.X["lock"]))
	case "bind":
		m := "bind"
		if st.K == "unbind" {
			m = "unbind"
		}
		var pubs [][]byte
		for _, k := range gasKeys {
			pubs = append(pubs, chain.Pub(w.sg[k]))
		}
		ks := keyList(st.X["keys"], pubs)
		if st.W != 0 { // a key of a wrong length somewhere in the list
			ks = append(ks, make([]byte, 32))
		}
		r = c.Run(w.acct("neofs"), sg, m, w.acct(st.U), ks)
	case "candAdd":
		r = c.Run(w.acct("neofs"), sg, "innerRingCandidateAdd", w.keyN.val(w.t, st.V))
	case "candRemove":
		r = c.Run(w.acct("neofs"), sg, "innerRingCandidateRemove", w.keyN.val(w.t, st.V))
	case "setFee":
		key := "WithdrawFee"
		if st.K == "cfee" {
			key = "InnerRingCandidateFee"
		}
		r = c.Run(w.acct("neofs"), sg, "setConfig", w.idN.val(w.t, st.ID), []byte(key), bigint.ToBytes(amt)) // the VM encoding of the integer
	case "alphaSame":
		r = c.Run(w.acct("neofs"), sg, "alphabetUpdate", w.idN.val(w.t, st.ID), w.stored)
	case "designate":
		var ks []any
		for i := 0; i < int(st.W) && i < len(w.irPubs); i++ {
			ks = append(ks, w.irPubs[i])
		}
		switch st.X["order"] { // the native contract sorts the list
		case "desc":
			slices.Reverse(ks)
		case "rot":
			if len(ks) > 1 {
				ks = append(ks[1:], ks[0])
			}
		}
		r = c.Run(w.roles, sg, "designateAsRole", int64(noderoles.NeoFSAlphabet), ks)
	case "emit":
		r = c.Run(w.acct("alph"), sg, "emit")
	case "pay":
		sh := st.X["data"]
		if sh == "" {
			sh = "null"
		}
		if sh == "magic" && st.V == "neofs" {
			// NeoFS's callback returns silently for the marker from ANY caller (observation in the report);
			// the statement does not speak about it, so it is not offered here
			sh = "b2"
		}
		data := dataArg(sh, w.acct(st.U).BytesBE())
		switch st.K {
		case "GAS":
			r = c.Run(g, sg, "transfer", w.acct(st.U), w.acct(st.V), amt, data)
		case "NEO":
			r = c.Run(neoHash(c), sg, "transfer", w.acct(st.U), w.acct(st.V), st.W, data)
		case "FOREIGN":
			r = c.Run(w.token, sg, "pay", w.acct(st.V), w.acct(st.U), amt, data)
		case "DIRECT":
			r = c.Run(w.acct(st.V), sg, "onNEP17Payment", w.acct(st.U), amt, data)
		case "FOREIGNMINT": // a foreign token announcing minted units: Null sender (ninth seeded batch, C19f)
			r = c.Run(w.token, sg, "pay", w.acct(st.V), nil, amt, data)
		case "DIRECTMINT":
			r = c.Run(w.acct(st.V), sg, "onNEP17Payment", nil, amt, data)
		default:
			w.t.Fatalf("unknown token %q", st.K)
		}
	default:
		w.t.Fatalf("unknown act %q", st.Act)
	}
	ret := "null"
	if r.Halt && len(r.Stack) == 1 && r.Stack[0].Type() == stackitem.BooleanT {
		bv, _ := r.Stack[0].TryBool()
		ret = strconv.FormatBool(bv)
	}
	ntf, mint := w.events(r.Events)
	return chain.Rec{"act": st.Act, "S": names, "u": orNil(st.U), "v": orNil(st.V), "amt": st.Amt, "w": st.W, "k": orNil(st.K),
		"id": orNil(st.ID), "mint": mint, "res": r.Res(), "ret": ret, "ntf": ntf, "fault": r.Fault, "x": st.X}
}

// events: NeoFS notifications in model values, and the GAS minted to tracked accounts (Transfer from null).
func (w *gworld) events(evs []state.NotificationEvent) ([]any, map[string]any) {
	out := []any{}
	minted := map[string]*big.Int{}
	g := gasHash(w.c)
	nf := w.acct("neofs")
	mk := func(n, a, b string, amt []int64, id string) map[string]any {
		return map[string]any{"n": n, "a": a, "b": b, "amt": amt, "id": id}
	}
	for _, ev := range evs {
		it := ev.Item.Value().([]stackitem.Item)
		if ev.ScriptHash == g && ev.Name == "Transfer" && chain.ItemBytes(it[0]) == nil {
			if n, ok := w.acctN.toName[hex.EncodeToString(chain.ItemBytes(it[1]))]; ok {
				if minted[n] == nil {
					minted[n] = new(big.Int)
				}
				minted[n].Add(minted[n], chain.ItemBig(it[2]))
			}
			continue
		}
		if ev.ScriptHash != nf {
			continue
		}
		switch ev.Name {
		case "Deposit":
			out = append(out, mk("Deposit", w.acctN.name(chain.ItemBytes(it[0]), &w.bad), w.acctN.name(chain.ItemBytes(it[2]), &w.bad),
				w.toL(chain.ItemBig(it[1]), "ntf.deposit"), "nil"))
		case "Withdraw":
			out = append(out, mk("Withdraw", w.acctN.name(chain.ItemBytes(it[0]), &w.bad), "nil", w.toL(chain.ItemBig(it[1]), "ntf.withdraw"), "nil"))
		case "Cheque":
			out = append(out, mk("Cheque", w.acctN.name(chain.ItemBytes(it[1]), &w.bad), "nil", w.toL(chain.ItemBig(it[2]), "ntf.cheque"),
				w.idN.name(chain.ItemBytes(it[0]), &w.bad)))
		case "Bind", "Unbind":
			out = append(out, mk(ev.Name, w.acctN.name(chain.ItemBytes(it[0]), &w.bad), "nil", []int64{0, 0, 0}, "nil"))
		case "AlphabetUpdate":
			out = append(out, mk("AlphabetUpdate", "nil", "nil", []int64{0, 0, 0}, w.idN.name(chain.ItemBytes(it[0]), &w.bad)))
		case "SetConfig":
			k := "?" + string(chain.ItemBytes(it[1]))
			switch string(chain.ItemBytes(it[1])) {
			case "WithdrawFee":
				k = "wfee"
			case "InnerRingCandidateFee":
				k = "cfee"
			}
			out = append(out, mk("SetConfig", k, "nil", w.toL(chain.ItemBig(it[2]), "ntf.setconfig"), w.idN.name(chain.ItemBytes(it[0]), &w.bad)))
		default:
			out = append(out, mk(ev.Name, "nil", "nil", []int64{0, 0, 0}, "nil"))
		}
	}
	mint := map[string]any{}
	for n := range w.h {
		if b := minted[n]; b != nil {
			mint[n] = w.toL(b, "mint."+n)
		} else {
			mint[n] = []int64{0, 0, 0}
		}
	}
	return out, mint
}

func vmInt(v []byte) *big.Int {
	it := stackitem.NewByteArray(v)
	b, err := it.TryInteger()
	if err != nil {
		return nil
	}
	return b
}

func (w *gworld) observe() map[string]any {
	c := w.c
	gas := map[string]any{}
	for n, h := range w.h {
		gas[n] = w.toL(big.NewInt(c.GAS(h)), "gas."+n)
	}
	neo := map[string]any{}
	for _, n := range append([]string{"alph"}, gasUsers...) {
		neo[n] = c.NEO(w.h[n])
	}
	o := map[string]any{"gas": gas, "neo": neo, "wfee": []int64{0, 0, 0}, "cfee": []int64{0, 0, 0}, "notary": true}
	cands := []string{}
	stray := []string{}
	bl := []any{}
	for k, v := range c.Storage(w.acct("neofs")) {
		kb, _ := hex.DecodeString(k)
		ks := string(kb)
		switch {
		case ks == "ballots":
			it, err := stackitem.Deserialize(v)
			require.NoError(w.t, err)
			for _, b := range it.Value().([]stackitem.Item) {
				f := b.Value().([]stackitem.Item)
				voters := []string{}
				for _, vt := range f[1].Value().([]stackitem.Item) {
					if vb := chain.ItemBytes(vt); vb == nil {
						voters = append(voters, "nil")
					} else {
						voters = append(voters, w.skN.name(vb, &w.bad))
					}
				}
				bl = append(bl, map[string]any{"id": w.idN.name(chain.ItemBytes(f[0]), &w.bad), "voters": voters,
					"h": chain.ItemBig(f[2]).Int64()})
			}
		case ks == "alphabet" || ks == "processingScriptHash":
		case ks == "notary":
			o["notary"] = !(len(v) > 0 && v[0] != 0)
		case ks == "configWithdrawFee":
			o["wfee"] = w.toL(vmInt(v), "cfg.wfee")
		case ks == "configInnerRingCandidateFee":
			o["cfee"] = w.toL(vmInt(v), "cfg.cfee")
		case strings.HasPrefix(ks, "candidates") && len(kb) == len("candidates")+33:
			cands = append(cands, w.keyN.name(kb[len("candidates"):], &w.bad))
		default:
			stray = append(stray, k)
		}
	}
	sort.Strings(cands)
	sort.Strings(stray)
	st, err := c.Call(w.acct("neofs"), "innerRingCandidates")
	require.NoError(w.t, err)
	capi := []string{}
	for _, it := range st[0].Value().([]stackitem.Item) {
		capi = append(capi, w.keyN.name(structField0(it), &w.bad))
	}
	sort.Strings(capi)
	// what common.InnerRingNodes() will return in the next block
	st, err = c.Call(w.roles, "getDesignatedByRole", int64(noderoles.NeoFSAlphabet), int64(c.Height()+1))
	require.NoError(w.t, err)
	des := st[0].Value().([]stackitem.Item)
	want := map[string]bool{}
	for i := 0; i < len(des) && i < len(w.irPubs); i++ {
		want[hex.EncodeToString(w.irPubs[i])] = true
	}
	for _, d := range des {
		if !want[hex.EncodeToString(chain.ItemBytes(d))] {
			w.bad = append(w.bad, "designated key outside r1..rN")
		}
	}
	o["cands"], o["candsApi"], o["stray"], o["irN"], o["bl"] = cands, capi, stray, len(des), bl
	return o
}

func runGasScenario(t *testing.T, rec *chain.Recorder, idx int, sc *GScenario, seed int64) {
	if sc.X == nil {
		r := shapeRand(seed, idx, -1)
		sc.X = X{"ids": pickS(r, "plain", "plain", "prefix", "long", "hashlike"), "total": pickS(r, "nc", "nc", "0", "1", "100", "-1"),
			"name": pickS(r, "Az", "Az", "empty", "long")}
	}
	for i := range sc.Steps {
		if sc.Steps[i].X != nil {
			continue
		}
		r := shapeRand(seed, idx, i)
		st := &sc.Steps[i]
		st.X = X{}
		switch st.Act {
		case "deposit":
			if shapes, ok := depositShapes[st.K]; ok {
				st.X["data"] = shapes[r.Intn(len(shapes))]
				if st.X["data"] == "int20" {
					st.V = "q20" // the receiver named by the integer's 20 bytes
				}
			}
		case "pay":
			st.X["data"] = anyData[r.Intn(len(anyData))]
		case "cheque":
			st.X["lock"] = lockShapes[r.Intn(len(lockShapes))]
		case "designate":
			st.X["order"] = pickS(r, "asc", "desc", "rot")
		case "bind":
			st.X["keys"] = pickS(r, "empty", "one", "dup", "rev", "many")
		}
	}
	w := newGWorld(t, sc, seed+int64(idx))
	obs := w.observe()
	zero := map[string]any{}
	for n := range w.h {
		zero[n] = []int64{0, 0, 0}
	}
	w.lastH = int64(w.c.Height()) - 1
	rec.Emit(chain.Rec{"t": idx, "act": "reset", "S": []string{}, "u": "nil", "v": "nil", "amt": []int64{0, 0, 0}, "w": 0, "k": "nil",
		"id": "nil", "gap": 0, "h": w.lastH, "mint": zero, "res": "HALT", "ret": "null", "ntf": []any{}, "obs": obs, "bad": []string{},
		"notary": sc.Notary, "skeys": gasKeys[:sc.NS], "nc": sc.NC, "idx": sc.Idx, "ns": sc.NS, "src": sc.Src, "x": sc.X})
	// Without Notary the arguments of a cheque are a function of its decision id within a scenario (the
	// first use of the id fixes receiver and amount): the statement speaks of "the cheque" an id stands for.
	type chq struct {
		v   string
		amt []int64
	}
	byID := map[string]chq{}
	for _, st := range sc.Steps {
		if len(st.Amt) != 3 {
			st.Amt = []int64{0, 0, 0}
		}
		if st.S == nil {
			st.S = []string{}
		}
		if !sc.Notary && st.Act == "cheque" {
			if c, ok := byID[st.ID]; ok {
				st.V, st.Amt = c.v, c.amt
			} else {
				byID[st.ID] = chq{st.V, st.Amt}
			}
		}
		if !sc.Notary { // every voter signs its own transaction: at most one stored key among the signers
			nk := 0
			var S []string
			for _, x := range st.S {
				if slices.Contains(gasKeys[:sc.NS], x) {
					nk++
					if nk > 1 {
						continue
					}
				}
				S = append(S, x)
			}
			if S == nil {
				S = []string{}
			}
			st.S = S
		}
		if st.Gap > 1 {
			w.c.Skip(st.Gap - 1)
		}
		w.bad = nil
		r := w.exec(st)
		h := int64(w.c.Height()) - 1
		r["gap"], r["h"] = h-w.lastH, h
		w.lastH = h
		r["obs"] = w.observe()
		if w.bad == nil {
			w.bad = []string{}
		}
		r["bad"] = w.bad
		r["t"] = idx
		rec.Emit(r)
	}
}

// ---- random scenarios ----

func gasAmt(whole, frac int64) []int64 { return fromInt0(whole, frac) }

func fromInt0(whole, frac int64) []int64 {
	b := new(big.Int).Mul(big.NewInt(whole), big.NewInt(1_0000_0000))
	b.Add(b, big.NewInt(frac))
	out := make([]int64, 3)
	m := new(big.Int)
	for i := 0; i < 3; i++ {
		b.QuoRem(b, big.NewInt(limbBase), m)
		out[i] = m.Int64()
	}
	return out
}

func randGasScenario(r *rand.Rand) *GScenario {
	ncs := []int{1, 3, 4, 7}
	nc := ncs[r.Intn(len(ncs))]
	sc := &GScenario{Notary: r.Intn(2) == 0, NS: 1 + r.Intn(4), NC: nc, Idx: r.Intn(nc + 1), Src: "rand"}
	if !sc.Notary && r.Intn(3) > 0 {
		return randGasVoteScenario(r, sc)
	}
	if r.Intn(4) > 0 && sc.Idx == nc {
		sc.Idx = r.Intn(nc)
	}
	pick := func(xs []string) string { return xs[r.Intn(len(xs))] }
	depAmts := [][]int64{gasAmt(0, 0), gasAmt(0, 1), gasAmt(0, 2), gasAmt(1, 0), gasAmt(8999, 9999_9999), gasAmt(9000, 0), gasAmt(9000, 1),
		gasAmt(9001, 0), gasAmt(50000, 0)}
	anyAmt := func() []int64 {
		switch r.Intn(4) {
		case 0:
			return depAmts[r.Intn(len(depAmts))]
		case 1:
			return gasAmt(0, r.Int63n(1000))
		case 2:
			return gasAmt(r.Int63n(9000), r.Int63n(1_0000_0000))
		default:
			return gasAmt(0, r.Int63n(1_000_000_000_000))
		}
	}
	me := "m" + strconv.Itoa(sc.Idx)
	sigOr := func(natural string) []string {
		switch r.Intn(10) {
		case 0:
			return []string{"X"}
		case 1:
			return []string{}
		case 2:
			return []string{pick([]string{"ALPHA", "CMT", "STORED", "m0", "m1", "u1", "c1"})}
		default:
			return []string{natural}
		}
	}
	approvers := []string{"ALPHA", "CMT", "STORED", "STOREDMAJ", "m0", "m" + strconv.Itoa(nc-1), "X"}
	alphaSig := func() string {
		if sc.Notary {
			if r.Intn(2) == 0 { // the approver is a dimension: every account that could be mistaken for the Alphabet
				return approvers[r.Intn(len(approvers))]
			}
			return "ALPHA"
		}
		return gasKeys[r.Intn(sc.NS)]
	}
	n := 12 + r.Intn(24)
	emitPhase := r.Intn(2) == 0
	if emitPhase {
		sc.Steps = append(sc.Steps, GStep{Act: "designate", S: []string{"CMT"}, W: int64(1 + r.Intn(7))})
		sc.Steps = append(sc.Steps, GStep{Act: "pay", S: []string{"u1"}, U: "u1", V: "alph", W: int64(1 + r.Intn(500)), K: "NEO"})
	}
	for i := 0; i < n; i++ {
		k := r.Intn(24)
		if emitPhase && k < 12 {
			k = 12 + r.Intn(12)
		}
		switch {
		case k < 5:
			u := pick(gasUsers)
			sc.Steps = append(sc.Steps, GStep{Act: "deposit", S: []string{u}, U: u, V: pick(gasUsers), Amt: anyAmt(),
				K: pick([]string{"none", "none", "empty", "h20", "h20", "b19", "b21", "magic"})})
		case k < 8:
			u := pick(gasUsers)
			sc.Steps = append(sc.Steps, GStep{Act: "withdraw", S: sigOr(u), U: u, W: []int64{-1, 0, 1, r.Int63n(9001), 8999, 9000, 9001}[r.Intn(7)]})
		case k < 10:
			amt := anyAmt()
			if r.Intn(2) == 0 {
				amt = gasAmt(0, r.Int63n(1000))
			}
			sc.Steps = append(sc.Steps, GStep{Act: "cheque", S: sigOr(alphaSig()), V: pick(gasUsers), Amt: amt, ID: pick([]string{"i1", "i2"})})
		case k < 12:
			c := pick(gasCands)
			act := pick([]string{"candAdd", "candAdd", "candRemove"})
			nat := c
			if act == "candRemove" && r.Intn(3) == 0 {
				nat = "STORED"
				if !sc.Notary || r.Intn(2) == 0 {
					nat = alphaSig()
				}
			}
			sc.Steps = append(sc.Steps, GStep{Act: act, S: sigOr(nat), V: c})
		case k < 13 && r.Intn(3) == 0:
			u := pick(gasUsers)
			var bad int64
			if r.Intn(5) == 0 {
				bad = 1
			}
			sc.Steps = append(sc.Steps, GStep{Act: "bind", S: sigOr(u), U: u, K: pick([]string{"bind", "unbind"}), W: bad})
		case k < 13:
			sc.Steps = append(sc.Steps, GStep{Act: "setFee", S: sigOr(alphaSig()), K: pick([]string{"wfee", "cfee"}),
				Amt: [][]int64{gasAmt(0, 0), gasAmt(0, 1), gasAmt(0, 100_0000), gasAmt(1, 0), gasAmt(5, 5), gasAmt(200, 0)}[r.Intn(6)], ID: "j1"})
		case k < 14 && r.Intn(3) == 0:
			sc.Steps = append(sc.Steps, GStep{Act: "alphaSame", S: sigOr(alphaSig()), ID: "a1"})
		case k < 14:
			sc.Steps = append(sc.Steps, GStep{Act: "designate", S: sigOr("CMT"), W: int64(1 + r.Intn(7))})
		case k < 17:
			u := pick(gasUsers)
			amts := [][]int64{gasAmt(0, 0), gasAmt(0, 1), gasAmt(0, 2), gasAmt(0, 3), gasAmt(0, r.Int63n(200)), gasAmt(0, r.Int63n(1_000_000_000_000)),
				gasAmt(r.Int63n(10000), r.Int63n(1_0000_0000))}
			sc.Steps = append(sc.Steps, GStep{Act: "pay", S: []string{u}, U: u, V: "alph", Amt: amts[r.Intn(len(amts))], K: "GAS"})
		case k < 20:
			sc.Steps = append(sc.Steps, GStep{Act: "emit", S: sigOr(me)})
		case k < 21:
			u := pick(gasUsers)
			sc.Steps = append(sc.Steps, GStep{Act: "pay", S: []string{u}, U: u, V: pick(gasCtrs), W: []int64{0, 1, 5, 100, 5000}[r.Intn(5)], K: "NEO"})
		case k < 22:
			u := pick(gasUsers)
			sc.Steps = append(sc.Steps, GStep{Act: "pay", S: []string{u}, U: u, V: pick([]string{"proc", "proxy"}), Amt: anyAmt(), K: "GAS"})
		default:
			u := pick(gasUsers)
			sc.Steps = append(sc.Steps, GStep{Act: "pay", S: []string{u}, U: u, V: pick(gasCtrs), Amt: anyAmt(), K: pick([]string{"FOREIGN", "DIRECT", "FOREIGNMINT", "DIRECTMINT"})})
		}
	}
	return sc
}

// randGasVoteScenario: without Notary, cheques collected by votes of the stored keys, interleaved with other
// pending decisions (fee change, list confirmation, candidate removal), late and repeated votes, strangers,
// window-boundary gaps, deposits/withdrawals in between; GAS judged on every step.
func randGasVoteScenario(r *rand.Rand, sc *GScenario) *GScenario {
	sc.Src = "randvote"
	pick := func(xs []string) string { return xs[r.Intn(len(xs))] }
	gaps := []int{1, 1, 1, 1, 1, 1, 2, 3, 19, 20, 20, 21, 21}
	chqAmt := func() []int64 {
		return [][]int64{gasAmt(0, 0), gasAmt(0, 1), gasAmt(0, 12345), gasAmt(1, 0), gasAmt(7, 5), gasAmt(60, 0), gasAmt(4000, 1), gasAmt(30000, 0)}[r.Intn(8)]
	}
	for _, a := range [][]int64{gasAmt(9000, 0), gasAmt(int64(1+r.Intn(300)), int64(r.Intn(1000)))} {
		sc.Steps = append(sc.Steps, GStep{Act: "deposit", S: []string{"u1"}, U: "u1", V: "u1", Amt: a, K: "none", Gap: 1})
	}
	sc.Steps = append(sc.Steps, GStep{Act: "candAdd", S: []string{"c1"}, V: "c1", Gap: 1})
	decisions := []GStep{
		{Act: "cheque", V: pick(gasUsers), Amt: chqAmt(), ID: "i1"},
		{Act: "cheque", V: pick(gasUsers), Amt: chqAmt(), ID: "i2"},
		{Act: "cheque", V: pick(gasUsers), Amt: chqAmt(), ID: "i1"}, // same id: the first use fixes the arguments
		{Act: "setFee", K: pick([]string{"wfee", "cfee"}), Amt: [][]int64{gasAmt(0, 0), gasAmt(0, 100_0000), gasAmt(2, 0)}[r.Intn(3)], ID: "j1"},
		{Act: "alphaSame", ID: "a1"},
		{Act: "candRemove", V: "c1"},
	}
	weights := []int{0, 0, 0, 1, 1, 2, 3, 4, 5}
	next := map[int]int{}
	perm := map[int][]int{}
	for i := range decisions {
		perm[i] = r.Perm(sc.NS)
	}
	n := 14 + r.Intn(26)
	for i := 0; i < n; i++ {
		gap := gaps[r.Intn(len(gaps))]
		switch k := r.Intn(14); {
		case k == 0:
			u := pick(gasUsers)
			sc.Steps = append(sc.Steps, GStep{Act: "deposit", S: []string{u}, U: u, V: u, Amt: gasAmt(int64(r.Intn(9001)), int64(r.Intn(3))), K: pick([]string{"none", "h20", "b21"}), Gap: gap})
			continue
		case k == 1:
			u := pick(gasUsers)
			sc.Steps = append(sc.Steps, GStep{Act: "withdraw", S: []string{u}, U: u, W: int64(r.Intn(9002)), Gap: gap})
			continue
		case k == 2:
			c := pick(gasCands)
			sc.Steps = append(sc.Steps, GStep{Act: pick([]string{"candAdd", "candAdd", "candRemove"}), S: []string{c}, V: c, Gap: gap})
			continue
		}
		d := weights[r.Intn(len(weights))]
		st := decisions[d]
		st.Gap = gap
		switch k := r.Intn(12); {
		case k == 0:
			st.S = []string{pick([]string{"X", "u1", "c2", "ALPHA", "STORED"})}
		case k == 1:
			st.S = []string{}
		case k == 2:
			st.S = []string{gasKeys[r.Intn(len(gasKeys))]} // possibly not a stored key
		case k < 6:
			st.S = []string{gasKeys[r.Intn(sc.NS)]} // random stored key: repeats and late votes
		default:
			st.S = []string{gasKeys[perm[d][next[d]%sc.NS]]} // next stored key in this decision's order
			next[d]++
		}
		sc.Steps = append(sc.Steps, st)
	}
	return sc
}

// gasVoteTraps: the cheque ballot next to other pending ballots (started before and after it), votes arriving after
// the payout (repeated voters, voters beyond the threshold), a second full approval, a round broken by the window.
func gasVoteTraps() []*GScenario {
	var out []*GScenario
	u1 := []string{"u1"}
	for ns := 1; ns <= 4; ns++ {
		thr := ns*2/3 + 1
		ks := gasKeys[:ns]
		chq := GStep{Act: "cheque", V: "u2", Amt: gasAmt(7, 5), ID: "i1", Gap: 1}
		chq2 := GStep{Act: "cheque", V: "u1", Amt: gasAmt(0, 3), ID: "i2", Gap: 1}
		fee := GStep{Act: "setFee", K: "wfee", Amt: gasAmt(0, 250_0000), ID: "j1", Gap: 1}
		same := GStep{Act: "alphaSame", ID: "a1", Gap: 1}
		rm := GStep{Act: "candRemove", V: "c1", Gap: 1}
		by := func(st GStep, k string, gap int) GStep {
			st.S = []string{k}
			st.Gap = gap
			return st
		}
		sc := &GScenario{Notary: false, NS: ns, NC: 1, Idx: 0, Src: "trap:votepay" + strconv.Itoa(ns)}
		sc.Steps = append(sc.Steps, GStep{Act: "deposit", S: u1, U: "u1", V: "u1", Amt: gasAmt(100, 0), K: "none", Gap: 1},
			GStep{Act: "candAdd", S: []string{"c1"}, V: "c1", Gap: 1})
		// other decisions pending BEFORE the cheque's ballot
		if ns > 1 {
			sc.Steps = append(sc.Steps, by(fee, ks[0], 1), by(same, ks[ns-1], 1))
		}
		for i := 0; i < thr; i++ { // the quorum: paid by the last one
			sc.Steps = append(sc.Steps, by(chq, ks[i], 1))
			if i == 0 && ns > 1 {
				sc.Steps = append(sc.Steps, by(rm, ks[0], 1), by(chq2, ks[ns-1], 1)) // ballots started AFTER it
			}
		}
		// votes arriving after the payout: repeated voters, voters beyond the threshold, strangers
		sc.Steps = append(sc.Steps, by(chq, ks[0], 1), by(chq, ks[thr-1], 1), by(chq, "X", 1))
		for i := thr; i < ns; i++ {
			sc.Steps = append(sc.Steps, by(chq, ks[i], 1))
		}
		sc.Steps = append(sc.Steps, GStep{Act: "withdraw", S: u1, U: "u1", W: 3, Gap: 1})
		// the other decisions complete, then a second full approval of the same id pays again (legitimately)
		for i := 0; i < ns; i++ {
			sc.Steps = append(sc.Steps, by(fee, ks[i], 1), by(rm, ks[ns-1-i], 1), by(same, ks[i], 1), by(chq2, ks[i], 1))
		}
		sc.Steps = append(sc.Steps, GStep{Act: "withdraw", S: u1, U: "u1", W: 3, Gap: 1})
		for i := 0; i < ns; i++ {
			sc.Steps = append(sc.Steps, by(chq, ks[ns-1-i], 1))
		}
		// a round broken by the window: 20 blocks keep it, 21 restart it
		sc.Steps = append(sc.Steps, by(chq2, ks[0], 1))
		for i := 1; i < ns; i++ {
			sc.Steps = append(sc.Steps, by(chq2, ks[i], 20))
		}
		sc.Steps = append(sc.Steps, by(chq2, ks[0], 1))
		for i := 1; i < ns; i++ {
			sc.Steps = append(sc.Steps, by(chq2, ks[i], 21))
		}
		// a payout larger than the balance when the quorum completes
		big := GStep{Act: "cheque", V: "u2", Amt: gasAmt(5000, 0), ID: "i2", Gap: 1}
		sc2 := &GScenario{Notary: false, NS: ns, NC: 1, Idx: 0, Src: "trap:votebig" + strconv.Itoa(ns)}
		sc2.Steps = append(sc2.Steps, GStep{Act: "deposit", S: u1, U: "u1", V: "u1", Amt: gasAmt(100, 0), K: "none", Gap: 1})
		for i := 0; i < ns; i++ {
			sc2.Steps = append(sc2.Steps, by(big, ks[i], 1))
		}
		sc2.Steps = append(sc2.Steps, GStep{Act: "deposit", S: u1, U: "u1", V: "u1", Amt: gasAmt(9000, 0), K: "none", Gap: 1})
		for i := 0; i < ns; i++ {
			sc2.Steps = append(sc2.Steps, by(big, ks[ns-1-i], 1))
		}
		out = append(out, sc, sc2)
	}
	return out
}

// ---- traps ----

// gasApproverTraps: with Notary, every account that could be mistaken for the approver tries each governed
// operation: the chain's Alphabet account (2n/3+1), the committee majority (n/2+1), the 2k/3+1 and k/2+1 accounts of
// the keys stored in the contract, single members, a stranger - on committees where the accounts differ (3, 7) and
// coincide (1, 4). Documented approvers: cheque / setConfig / alphabetUpdate -> chain Alphabet account;
// candidate removal -> the candidate or the 2k/3+1 account of the stored keys.
func gasApproverTraps() []*GScenario {
	var out []*GScenario
	u1 := []string{"u1"}
	for _, nc := range []int{3, 7, 4, 1} {
		for _, ns := range []int{3, 4} {
			sc := &GScenario{Notary: true, NS: ns, NC: nc, Idx: 0, Src: "trap:approver" + strconv.Itoa(nc) + "-" + strconv.Itoa(ns)}
			sc.Steps = append(sc.Steps, GStep{Act: "deposit", S: u1, U: "u1", V: "u1", Amt: gasAmt(100, 0), K: "none"},
				GStep{Act: "candAdd", S: []string{"c1"}, V: "c1"})
			for i, a := range []string{"CMT", "STOREDMAJ", "STORED", "m0", "m" + strconv.Itoa(nc-1), "X", "k1", "ALPHA"} {
				S := []string{a}
				sc.Steps = append(sc.Steps,
					GStep{Act: "cheque", S: S, V: "u2", Amt: gasAmt(1, int64(i)), ID: "i1"},
					GStep{Act: "setFee", S: S, K: "wfee", Amt: gasAmt(0, int64(300_0000+i)), ID: "j1"},
					GStep{Act: "withdraw", S: u1, U: "u1", W: 2},
					GStep{Act: "setFee", S: S, K: "cfee", Amt: gasAmt(2, int64(i)), ID: "j1"},
					GStep{Act: "alphaSame", S: S, ID: "a1"},
					GStep{Act: "candRemove", S: S, V: "c1"},
					GStep{Act: "candAdd", S: []string{"c1"}, V: "c1"})
			}
			out = append(out, sc)
		}
	}
	return out
}

func gasTraps() []*GScenario {
	var out []*GScenario
	u1 := []string{"u1"}
	for _, notary := range []bool{true, false} {
		// deposit bounds and receiver data, fees, cheques larger/equal/smaller than the balance
		sc := &GScenario{Notary: notary, NS: 3, NC: 3, Idx: 0, Src: "trap:bounds"}
		for _, a := range [][]int64{gasAmt(0, 0), gasAmt(0, 1), gasAmt(8999, 9999_9999), gasAmt(9000, 0), gasAmt(9000, 1), gasAmt(9001, 0)} {
			for _, k := range []string{"none", "h20", "b21"} {
				sc.Steps = append(sc.Steps, GStep{Act: "deposit", S: u1, U: "u1", V: "u2", Amt: a, K: k})
			}
		}
		sc.Steps = append(sc.Steps, GStep{Act: "deposit", S: u1, U: "u1", V: "u2", Amt: gasAmt(3, 0), K: "magic"},
			GStep{Act: "deposit", S: u1, U: "u1", V: "u2", Amt: gasAmt(99999, 0), K: "none"},
			GStep{Act: "deposit", S: u1, U: "u1", V: "u2", Amt: gasAmt(0, 7), K: "empty"},
			GStep{Act: "deposit", S: u1, U: "u1", V: "u2", Amt: gasAmt(0, 7), K: "b19"})
		for _, wv := range []int64{-1, 0, 1, 9000, 9001} {
			sc.Steps = append(sc.Steps, GStep{Act: "withdraw", S: u1, U: "u1", W: wv})
		}
		sc.Steps = append(sc.Steps, GStep{Act: "withdraw", S: []string{"u2"}, U: "u1", W: 5},
			GStep{Act: "setFee", S: []string{"ALPHA"}, K: "wfee", Amt: gasAmt(0, 0), ID: "i1"}, GStep{Act: "withdraw", S: u1, U: "u1", W: 5},
			GStep{Act: "setFee", S: []string{"CMT"}, K: "wfee", Amt: gasAmt(7, 3), ID: "i1"}, GStep{Act: "withdraw", S: u1, U: "u1", W: 5},
			GStep{Act: "setFee", S: []string{"ALPHA"}, K: "wfee", Amt: gasAmt(7, 3), ID: "i1"}, GStep{Act: "withdraw", S: u1, U: "u1", W: 5},
			GStep{Act: "candAdd", S: []string{"c1"}, V: "c1"}, GStep{Act: "candAdd", S: []string{"c1"}, V: "c1"},
			GStep{Act: "candAdd", S: []string{"X"}, V: "c2"},
			GStep{Act: "setFee", S: []string{"ALPHA"}, K: "cfee", Amt: gasAmt(101, 0), ID: "i2"}, GStep{Act: "candAdd", S: []string{"c2"}, V: "c2"},
			GStep{Act: "setFee", S: []string{"ALPHA"}, K: "cfee", Amt: gasAmt(100, 0), ID: "i2"}, GStep{Act: "candAdd", S: []string{"c2"}, V: "c2"},
			GStep{Act: "candRemove", S: []string{"STORED"}, V: "c2"}, GStep{Act: "candRemove", S: []string{"ALPHA"}, V: "c1"},
			GStep{Act: "candRemove", S: []string{"c1"}, V: "c1"},
			GStep{Act: "cheque", S: []string{"ALPHA"}, V: "u2", Amt: gasAmt(17000, 0), ID: "i1"},
			GStep{Act: "cheque", S: []string{"STORED"}, V: "u2", Amt: gasAmt(1, 0), ID: "i1"},
			GStep{Act: "cheque", S: []string{"m0"}, V: "u2", Amt: gasAmt(1, 0), ID: "i1"},
			GStep{Act: "cheque", S: []string{"ALPHA"}, V: "u2", Amt: gasAmt(1, 1), ID: "i1"},
			GStep{Act: "cheque", S: []string{"ALPHA"}, V: "u2", Amt: gasAmt(99999, 0), ID: "i2"})
		out = append(out, sc)
	}
	// emit: every Inner Ring size, balances 0,1,2,3 and all residues around a multiple of 16N, wrong invokers, foreign payments
	for n := 1; n <= 7; n++ {
		nc := []int{1, 3, 4, 7, 3, 4, 7}[n-1]
		idx := (n - 1) % nc
		me := []string{"m" + strconv.Itoa(idx)}
		sc := &GScenario{Notary: true, NS: 1, NC: nc, Idx: idx, Src: "trap:emit" + strconv.Itoa(n)}
		sc.Steps = append(sc.Steps, GStep{Act: "emit", S: me}, GStep{Act: "pay", S: u1, U: "u1", V: "alph", Amt: gasAmt(0, 5), K: "GAS"},
			GStep{Act: "emit", S: me}, // no Inner Ring designated yet
			GStep{Act: "designate", S: []string{"X"}, W: int64(n)}, GStep{Act: "designate", S: []string{"CMT"}, W: int64(n)},
			GStep{Act: "emit", S: []string{"X"}}, GStep{Act: "emit", S: []string{"m" + strconv.Itoa((idx+1)%7)}},
			GStep{Act: "emit", S: []string{"ALPHA"}})
		for i := 0; i < 4; i++ {
			sc.Steps = append(sc.Steps, GStep{Act: "emit", S: me}) // 5 -> 3 -> 2 -> 1 -> fault
		}
		for d := int64(0); d < 6; d++ {
			sc.Steps = append(sc.Steps, GStep{Act: "pay", S: u1, U: "u1", V: "alph", Amt: gasAmt(0, int64(16*n)*3+d), K: "GAS"}, GStep{Act: "emit", S: me})
		}
		sc.Steps = append(sc.Steps, GStep{Act: "pay", S: u1, U: "u1", V: "alph", W: 700, K: "NEO"},
			GStep{Act: "pay", S: u1, U: "u1", V: "alph", Amt: gasAmt(9999, 9999_9999), K: "GAS"}, GStep{Act: "emit", S: me},
			GStep{Act: "pay", S: u1, U: "u1", V: "alph", W: 0, K: "NEO"}, GStep{Act: "emit", S: me},
			GStep{Act: "pay", S: u1, U: "u1", V: "alph", Amt: gasAmt(0, 999_999_999_999), K: "GAS"}, GStep{Act: "emit", S: me}, GStep{Act: "emit", S: me})
		for _, t := range gasCtrs {
			for _, k := range []string{"FOREIGN", "DIRECT", "NEO", "FOREIGNMINT", "DIRECTMINT"} {
				sc.Steps = append(sc.Steps, GStep{Act: "pay", S: u1, U: "u1", V: t, Amt: gasAmt(0, 5), W: 2, K: k})
			}
		}
		sc.Steps = append(sc.Steps, GStep{Act: "pay", S: u1, U: "u1", V: "proxy", Amt: gasAmt(0, 5), K: "GAS"},
			GStep{Act: "pay", S: u1, U: "u1", V: "proc", Amt: gasAmt(2, 5), K: "GAS"})
		out = append(out, sc)
	}
	// Alphabet contract whose index is outside the committee
	out = append(out, &GScenario{Notary: true, NS: 1, NC: 3, Idx: 3, Src: "trap:emitidx", Steps: []GStep{
		{Act: "designate", S: []string{"CMT"}, W: 2}, {Act: "pay", S: u1, U: "u1", V: "alph", Amt: gasAmt(1, 0), K: "GAS"},
		{Act: "emit", S: []string{"m3"}}, {Act: "emit", S: []string{"m2"}}, {Act: "emit", S: []string{"m0"}}}})
	return out
}

func driveGas(t *testing.T, rec *chain.Recorder, raw []json.RawMessage, traps bool, nrand int, r *rand.Rand, seed int64, shard, nshard int) int {
	var scs []*GScenario
	for _, m := range raw {
		sc := &GScenario{}
		require.NoError(t, json.Unmarshal(m, sc))
		if sc.Src == "" {
			sc.Src = "tlc"
		}
		if sc.NC == 0 {
			sc.NC, sc.NS = 1, 1
		}
		scs = append(scs, sc)
	}
	if traps {
		scs = append(scs, gasTraps()...)
		scs = append(scs, gasVoteTraps()...)
		scs = append(scs, gasApproverTraps()...)
	}
	for i := 0; i < nrand; i++ {
		scs = append(scs, randGasScenario(r))
	}
	for i, sc := range scs {
		if i%nshard != shard {
			continue
		}
		runGasScenario(t, rec, i, sc, seed)
	}
	return len(scs)
}
