package mainchain

import (
	"bytes"
	"crypto/sha256"
	"encoding/hex"
	"encoding/json"
	"math/rand"
	"sort"
	"strconv"
	"strings"
	"testing"

	"github.com/nspcc-dev/neo-go/pkg/core/state"
	"github.com/nspcc-dev/neo-go/pkg/core/transaction"
	"github.com/nspcc-dev/neo-go/pkg/neotest"
	"github.com/nspcc-dev/neo-go/pkg/util"
	"github.com/nspcc-dev/neo-go/pkg/vm/stackitem"
	"github.com/stretchr/testify/require"

	"verif/harness/chain"
)

// VStep is one invocation in the vocabulary of MainChainVote.tla (the ev record).
type VStep struct {
	Act   string   `json:"act"`
	S     []string `json:"S"`
	ID    string   `json:"id"`
	Key   string   `json:"key"`
	Val   string   `json:"val"`
	Lst   []string `json:"lst"`
	Cand  string   `json:"cand"`
	Payee string   `json:"payee"`
	Amt   int64    `json:"amt"`
	Gap   int      `json:"gap"`
	X     X        `json:"x,omitempty"` // shapes of arguments the Spec ignores (see shapes_test.go)
}

// VScenario is a sequence of steps on a fresh deployment with N stored Alphabet keys.
type VScenario struct {
	N     int     `json:"n"`
	Src   string  `json:"src"`
	Steps []VStep `json:"steps"`
	// StrangerCfg: keep setConfig invocations that carry no Alphabet witness. They are not rejected by the
	// code today, which ends the decisive part of a trace, so only a share of the scenarios contains them.
	StrangerCfg bool `json:"strangerCfg"`
	// X: scenario-level shapes: byte strings behind the model ids / config keys / config values
	X X `json:"x,omitempty"`
}

const (
	voteInitGas = 50
	nVoteKeys   = 9
)

var (
	voteCfgKeys = []string{"ka", "kb", "empty"}
	votePayees  = []string{"p1", "p2"}
	voteCands   = []string{"c1", "c2"}
)

type vworld struct {
	t      *testing.T
	c      *chain.Chain
	neofs  util.Uint160
	sg     map[string]neotest.Signer
	keyN   *names // public keys
	idN    *names
	cfgKN  *names
	cfgVN  *names
	payN   *names // script hashes (BE)
	lastH  int64
	bad    []string
	probe  []byte
	alphaN []string // current stored list (last observation)
}

func newVWorld(t *testing.T, sc *VScenario, seed int64) *vworld {
	c := chain.New(t, 1, seed)
	w := &vworld{t: t, c: c, sg: map[string]neotest.Signer{}, keyN: newNames(), idN: newNames(), cfgKN: newNames(),
		cfgVN: newNames(), payN: newNames()}
	var pubs []any
	for i := 1; i <= nVoteKeys; i++ {
		n := "k" + strconv.Itoa(i)
		w.sg[n] = c.NewUser(n, 0)
		w.keyN.reg(n, chain.Pub(w.sg[n]))
		if i <= sc.N {
			pubs = append(pubs, chain.Pub(w.sg[n]))
		}
	}
	for _, n := range []string{"x1", "x2", "c1", "c2"} {
		w.sg[n] = c.NewUser(n, 0)
		w.keyN.reg(n, chain.Pub(w.sg[n]))
	}
	w.keyN.reg("bad", make([]byte, 32))
	for _, p := range votePayees {
		w.payN.reg(p, c.NewUser(p, 0).ScriptHash().BytesBE())
	}
	for i := 1; i <= 3; i++ {
		w.idN.reg("i"+strconv.Itoa(i), idBytes(sc.X["ids"], i-1, "id-"+strconv.Itoa(i)))
	}
	for _, cn := range voteCands {
		h := sha256.Sum256(append(append([]byte{}, chain.Pub(w.sg[cn])...), []byte("delete")...))
		w.idN.reg("del:"+cn, h[:])
	}
	w.cfgKN.reg("ka", cfgKeyBytes(sc.X["keys"], "ka"))
	w.cfgKN.reg("kb", cfgKeyBytes(sc.X["keys"], "kb"))
	w.cfgKN.reg("empty", []byte{})
	w.cfgVN.reg("v1", cfgValBytes(sc.X["vals"], "v1"))
	w.cfgVN.reg("v2", cfgValBytes(sc.X["vals"], "v2"))

	ctr := c.Compile("neofs")
	c.Deploy(ctr, []any{true, util.Uint160{1, 2, 3}, pubs, []any{"InnerRingCandidateFee", int64(0)}})
	w.neofs = ctr.Hash
	funder := c.NewUser("funder", 100_0000_0000)
	r := c.Run(gasHash(c), []neotest.Signer{funder}, "transfer", funder.ScriptHash(), w.neofs, int64(voteInitGas), nil)
	require.True(t, r.Halt, "funding deposit: %s", r.Fault)
	for _, cn := range voteCands {
		r := c.Run(w.neofs, []neotest.Signer{w.sg[cn]}, "innerRingCandidateAdd", chain.Pub(w.sg[cn]))
		require.True(t, r.Halt, "candidate add: %s", r.Fault)
	}
	g := gasHash(c)
	calls := []call{}
	for _, k := range voteCfgKeys {
		calls = append(calls, call{w.neofs, "config", []any{w.cfgKN.toVal[k]}})
	}
	calls = append(calls, call{w.neofs, "alphabetList", nil}, call{w.neofs, "innerRingCandidates", nil},
		call{g, "balanceOf", []any{w.neofs}})
	for _, p := range votePayees {
		calls = append(calls, call{g, "balanceOf", []any{w.payN.toVal[p]}})
	}
	w.probe = script(t, calls)
	return w
}

// parseProbe turns the stack of the probe script into the API part of an observation.
func (w *vworld) parseProbe(st []stackitem.Item) map[string]any {
	require.Len(w.t, st, len(voteCfgKeys)+3+len(votePayees))
	cfg := map[string]any{}
	for i, k := range voteCfgKeys {
		if b := chain.ItemBytes(st[i]); b == nil {
			cfg[k] = "nil"
		} else {
			cfg[k] = w.cfgVN.name(b, &w.bad)
		}
	}
	i := len(voteCfgKeys)
	alpha := []string{}
	for _, it := range st[i].Value().([]stackitem.Item) {
		alpha = append(alpha, w.keyN.name(structField0(it), &w.bad))
	}
	cands := []string{}
	for _, it := range st[i+1].Value().([]stackitem.Item) {
		cands = append(cands, w.keyN.name(structField0(it), &w.bad))
	}
	sort.Strings(cands)
	gasP := map[string]any{}
	for j, p := range votePayees {
		gasP[p] = chain.Int(chain.ItemBig(st[i+3+j]))
	}
	return map[string]any{"alphaApi": alpha, "cfgApi": cfg, "candsApi": cands, "gasC": chain.Int(chain.ItemBig(st[i+2])), "gasP": gasP}
}

// observeFull: API (probe as a test invocation) + raw storage.
func (w *vworld) observeFull() map[string]any {
	o := w.parseProbe(probeNow(w.t, w.c, w.probe))
	cfg := map[string]any{}
	for _, k := range voteCfgKeys {
		cfg[k] = "nil"
	}
	alpha := []string{}
	cands := []string{}
	bl := []any{}
	stray := []string{}
	st := w.c.Storage(w.neofs)
	keys := make([]string, 0, len(st))
	for k := range st {
		keys = append(keys, k)
	}
	sort.Strings(keys)
	for _, k := range keys {
		v := st[k]
		kb, _ := hex.DecodeString(k)
		ks := string(kb)
		switch {
		case ks == "alphabet":
			it, err := stackitem.Deserialize(v)
			require.NoError(w.t, err)
			for _, e := range it.Value().([]stackitem.Item) {
				alpha = append(alpha, w.keyN.name(chain.ItemBytes(e), &w.bad))
			}
		case ks == "ballots":
			it, err := stackitem.Deserialize(v)
			require.NoError(w.t, err)
			for _, b := range it.Value().([]stackitem.Item) {
				f := b.Value().([]stackitem.Item)
				voters := []string{}
				for _, vt := range f[1].Value().([]stackitem.Item) {
					if vb := chain.ItemBytes(vt); vb == nil {
						voters = append(voters, "nil")
					} else {
						voters = append(voters, w.keyN.name(vb, &w.bad))
					}
				}
				bl = append(bl, map[string]any{"id": w.idN.name(chain.ItemBytes(f[0]), &w.bad), "voters": voters,
					"h": chain.ItemBig(f[2]).Int64()})
			}
		case ks == "notary" || ks == "processingScriptHash" || ks == "configInnerRingCandidateFee":
		case strings.HasPrefix(ks, "candidates") && len(kb) == len("candidates")+33:
			cands = append(cands, w.keyN.name(kb[len("candidates"):], &w.bad))
		case strings.HasPrefix(ks, "config"):
			name, ok := w.cfgKN.toName[hex.EncodeToString(kb[len("config"):])]
			if !ok {
				stray = append(stray, k)
				continue
			}
			cfg[name] = w.cfgVN.name(v, &w.bad)
		default:
			stray = append(stray, k)
		}
	}
	sort.Strings(cands)
	o["alpha"], o["cfg"], o["cands"], o["bl"], o["blk"], o["stray"] = alpha, cfg, cands, bl, true, stray
	w.alphaN = alpha
	return o
}

// observeMid: what the probe transaction placed right after the invocation (same block) saw.
func (w *vworld) observeMid(pr *chain.Result) map[string]any {
	require.True(w.t, pr.Halt, "probe transaction: %s", pr.Fault)
	o := w.parseProbe(pr.Stack)
	o["alpha"], o["cfg"], o["cands"], o["bl"], o["blk"], o["stray"] = o["alphaApi"], o["cfgApi"], o["candsApi"], []any{}, false, []string{}
	w.alphaN = o["alphaApi"].([]string)
	return o
}

func (w *vworld) signers(S []string) []neotest.Signer {
	var out []neotest.Signer
	for _, s := range S {
		sg, ok := w.sg[s]
		require.True(w.t, ok, "unknown signer %s", s)
		out = append(out, sg)
	}
	return out
}

func (w *vworld) tx(st VStep) *transaction.Transaction {
	sg := w.signers(st.S)
	switch st.Act {
	case "cheque":
		u, err := util.Uint160DecodeBytesBE(w.payN.val(w.t, st.Payee))
		require.NoError(w.t, err)
		return w.c.Tx(w.neofs, sg, "cheque", w.idN.val(w.t, st.ID), u, st.Amt, lockArg(st.X["lock"]))
	case "alphabetUpdate":
		lst := []any{}
		for _, k := range st.Lst {
			lst = append(lst, w.keyN.val(w.t, k))
		}
		return w.c.Tx(w.neofs, sg, "alphabetUpdate", w.idN.val(w.t, st.ID), lst)
	case "setConfig":
		return w.c.Tx(w.neofs, sg, "setConfig", w.idN.val(w.t, st.ID), w.cfgKN.val(w.t, st.Key), w.cfgVN.val(w.t, st.Val))
	case "candRemove":
		return w.c.Tx(w.neofs, sg, "innerRingCandidateRemove", w.keyN.val(w.t, st.Cand))
	case "candAdd":
		return w.c.Tx(w.neofs, sg, "innerRingCandidateAdd", w.keyN.val(w.t, st.Cand))
	case "candBad": // a candidate key of a wrong length (CheckWitness faults on it)
		n, _ := strconv.Atoi(st.X["len"])
		m := "innerRingCandidateRemove"
		if st.X["op"] == "add" {
			m = "innerRingCandidateAdd"
		}
		return w.c.Tx(w.neofs, sg, m, bytes.Repeat([]byte{2}, n))
	}
	w.t.Fatalf("unknown act %q", st.Act)
	return nil
}

func (w *vworld) ntf(evs []state.NotificationEvent) []any {
	out := []any{}
	mk := func(n, id, a, b string, amt any, lst []string) map[string]any {
		return map[string]any{"n": n, "id": id, "a": a, "b": b, "amt": amt, "lst": lst}
	}
	for _, ev := range evs {
		if ev.ScriptHash != w.neofs {
			continue // native GAS Transfer events
		}
		it := ev.Item.Value().([]stackitem.Item)
		switch ev.Name {
		case "Cheque":
			out = append(out, mk("Cheque", w.idN.name(chain.ItemBytes(it[0]), &w.bad), w.payN.name(chain.ItemBytes(it[1]), &w.bad), "nil",
				chain.Int(chain.ItemBig(it[2])), []string{}))
		case "AlphabetUpdate":
			lst := []string{}
			for _, k := range it[1].Value().([]stackitem.Item) {
				lst = append(lst, w.keyN.name(chain.ItemBytes(k), &w.bad))
			}
			out = append(out, mk("AlphabetUpdate", w.idN.name(chain.ItemBytes(it[0]), &w.bad), "nil", "nil", 0, lst))
		case "SetConfig":
			out = append(out, mk("SetConfig", w.idN.name(chain.ItemBytes(it[0]), &w.bad), w.cfgKN.name(chain.ItemBytes(it[1]), &w.bad),
				w.cfgVN.name(chain.ItemBytes(it[2]), &w.bad), 0, []string{}))
		default:
			out = append(out, mk(ev.Name, "nil", "nil", "nil", 0, []string{}))
		}
	}
	return out
}

func (w *vworld) noMember(S []string) bool {
	for _, s := range S {
		for _, a := range w.alphaN {
			if s == a {
				return false
			}
		}
	}
	return true
}

func orNil(s string) string {
	if s == "" {
		return "nil"
	}
	return s
}

func runVoteScenario(t *testing.T, rec *chain.Recorder, idx int, sc *VScenario, seed int64) {
	if sc.X == nil {
		r := shapeRand(seed, idx, -1)
		sc.X = X{"ids": pickS(r, "plain", "plain", "prefix", "long", "hashlike"), "keys": pickS(r, "plain", "plain", "prefix", "long", "tiny"),
			"vals": pickS(r, "plain", "plain", "tiny", "long")}
	}
	for i := range sc.Steps {
		if sc.Steps[i].X == nil {
			r := shapeRand(seed, idx, i)
			switch sc.Steps[i].Act {
			case "cheque":
				sc.Steps[i].X = X{"lock": lockShapes[r.Intn(len(lockShapes))]}
			case "candBad":
				sc.Steps[i].X = X{"len": pickS(r, "0", "1", "32", "34", "65"), "op": pickS(r, "add", "remove")}
			default:
				sc.Steps[i].X = X{}
			}
		}
	}
	w := newVWorld(t, sc, seed+int64(idx))
	obs := w.observeFull()
	w.lastH = int64(w.c.Height()) - 1
	rec.Emit(chain.Rec{"t": idx, "act": "reset", "S": []string{}, "id": "nil", "key": "nil", "val": "nil", "lst": []string{},
		"cand": "nil", "payee": "nil", "amt": 0, "gap": 0, "h": w.lastH, "res": "HALT", "ntf": []any{}, "obs": obs, "bad": []string{},
		"n": sc.N, "src": sc.Src, "strangerCfg": sc.StrangerCfg, "x": sc.X})
	steps := sc.Steps
	for i := 0; i < len(steps); {
		j := i + 1
		for j < len(steps) && steps[j].Gap == 0 {
			j++
		}
		if g := steps[i].Gap; g > 1 {
			w.c.Skip(g - 1)
		}
		// one block: invocation, probe, invocation, probe, ...
		var txs []*transaction.Transaction
		var kept []VStep
		for k := i; k < j; k++ {
			st := steps[k]
			if st.Act == "setConfig" && !sc.StrangerCfg && w.noMember(st.S) {
				// decided on the real state (the stored list as last observed); inside a block the list
				// may change under our feet, so only the first invocation of a block is filtered
				continue
			}
			if st.Lst == nil {
				st.Lst = []string{}
			}
			if st.S == nil {
				st.S = []string{}
			}
			kept = append(kept, st)
			txs = append(txs, w.tx(st), w.c.ScriptTx(w.probe, nil))
		}
		i = j
		if len(txs) == 0 {
			continue
		}
		res := w.c.RunBlock(txs...)
		for k, st := range kept {
			w.bad = nil
			r := res[2*k]
			h := int64(r.Height) - 1
			var o map[string]any
			if k == len(kept)-1 {
				o = w.observeFull()
			} else {
				o = w.observeMid(res[2*k+1])
			}
			nt := w.ntf(r.Events)
			if w.bad == nil {
				w.bad = []string{}
			}
			rec.Emit(chain.Rec{"t": idx, "act": st.Act, "S": st.S, "id": orNil(st.ID), "key": orNil(st.Key), "val": orNil(st.Val),
				"lst": st.Lst, "cand": orNil(st.Cand), "payee": orNil(st.Payee), "amt": st.Amt, "gap": h - w.lastH, "h": h,
				"res": r.Res(), "ntf": nt, "obs": o, "bad": w.bad, "fault": r.Fault, "x": st.X})
			w.lastH = h
		}
	}
}

// ---- random scenarios: campaigns for a few decisions, voters in random order, window-boundary gaps ----

type campaign struct {
	st VStep
}

func keyName(i int) string { return "k" + strconv.Itoa(i) }

func randVoteScenario(r *rand.Rand) *VScenario {
	n := 1 + r.Intn(7)
	sc := &VScenario{N: n, Src: "rand", StrangerCfg: r.Intn(3) == 0}
	gaps := []int{0, 0, 0, 1, 1, 1, 2, 3, 10, 19, 20, 20, 21, 21, 22}
	ids := []string{"i1", "i2", "i3"}
	lists := [][]string{nil, {"k1"}, {"k2", "k1"}, {"k1", "k2", "k8", "k9"}, {}, {"k1", "bad"}, {"k1", "k1"}, {"k2", "k1", "k2"}}
	full := []string{}
	for i := 1; i <= n; i++ {
		full = append(full, keyName(i))
	}
	lists[0] = full
	newCampaign := func() campaign {
		id := ids[r.Intn(len(ids))]
		switch r.Intn(8) {
		case 0, 1:
			return campaign{VStep{Act: "cheque", ID: id, Payee: votePayees[r.Intn(2)], Amt: []int64{0, 1, 2, 7, 30, 60}[r.Intn(6)]}}
		case 2:
			if r.Intn(3) > 0 { // most scenarios keep the list: rounds that straddle a change are not judged
				return campaign{VStep{Act: "alphabetUpdate", ID: id, Lst: full}}
			}
			return campaign{VStep{Act: "alphabetUpdate", ID: id, Lst: lists[r.Intn(len(lists))]}}
		case 3, 4, 5:
			return campaign{VStep{Act: "setConfig", ID: id, Key: []string{"ka", "kb", "ka", "kb", "empty"}[r.Intn(5)], Val: []string{"v1", "v2"}[r.Intn(2)]}}
		default:
			return campaign{VStep{Act: "candRemove", Cand: voteCands[r.Intn(2)]}}
		}
	}
	camps := []campaign{newCampaign(), newCampaign()}
	perm := r.Perm(n)
	pi := 0
	steps := 10 + r.Intn(25)
	for i := 0; i < steps; i++ {
		gap := gaps[r.Intn(len(gaps))]
		switch k := r.Intn(20); {
		case k == 0:
			c := voteCands[r.Intn(2)]
			sc.Steps = append(sc.Steps, VStep{Act: "candAdd", S: []string{c}, Cand: c, Gap: gap})
			continue
		case k == 1:
			c := voteCands[r.Intn(2)]
			sc.Steps = append(sc.Steps, VStep{Act: "candRemove", S: []string{c}, Cand: c, Gap: gap})
			continue
		case k == 2:
			camps[r.Intn(len(camps))] = newCampaign()
		case k == 3 && r.Intn(2) == 0:
			sc.Steps = append(sc.Steps, VStep{Act: "candBad", S: []string{[]string{"c1", "x1", keyName(1 + r.Intn(n))}[r.Intn(3)]}, Gap: gap})
			continue
		}
		st := camps[r.Intn(len(camps))].st
		st.Gap = gap
		if st.Act == "setConfig" && r.Intn(8) == 0 {
			st.Val = []string{"v1", "v2"}[r.Intn(2)]
		}
		switch k := r.Intn(16); {
		case k == 0:
			st.S = []string{[]string{"x1", "x2"}[r.Intn(2)]}
		case k == 1:
			st.S = []string{}
		case k == 2:
			st.S = []string{keyName(1 + r.Intn(n)), "x1"}
		case k == 3:
			st.S = []string{keyName(1 + r.Intn(nVoteKeys))} // possibly not (or no longer) a member
		case k < 7:
			st.S = []string{keyName(1 + r.Intn(n))} // random member, repeats likely
		default:
			st.S = []string{keyName(1 + perm[pi%n])} // next member in a random order
			pi++
		}
		sc.Steps = append(sc.Steps, st)
	}
	return sc
}

// ---- traps: witnesses of rare branches and of the defect found ----

func votes(act string, base VStep, voters []string, gaps []int) []VStep {
	var out []VStep
	for i, v := range voters {
		st := base
		st.Act = act
		st.S = strings.Split(v, "+")
		if v == "" {
			st.S = []string{}
		}
		st.Gap = gaps[i%len(gaps)]
		out = append(out, st)
	}
	return out
}

func voteTraps() []*VScenario {
	cfg := VStep{ID: "i1", Key: "ka", Val: "v1"}
	cfg2 := VStep{ID: "i2", Key: "kb", Val: "v2"}
	chq := VStep{ID: "i2", Payee: "p1", Amt: 7}
	var out []*VScenario
	// the defect: setConfig without any Alphabet witness is not rejected and counts as a voter (n = 1: takes effect at once)
	out = append(out, &VScenario{N: 1, Src: "trap:strangerCfg1", StrangerCfg: true, Steps: votes("setConfig", cfg, []string{"x1"}, []int{1})})
	out = append(out, &VScenario{N: 4, Src: "trap:strangerCfg4", StrangerCfg: true,
		Steps: votes("setConfig", cfg, []string{"x1", "x2", "", "k2", "k3"}, []int{1})})
	for n := 1; n <= 7; n++ {
		thr := n*2/3 + 1
		var all []string
		for i := 1; i <= n; i++ {
			all = append(all, keyName(i))
		}
		// window boundaries: quorum with gaps of exactly 20, then a round broken by a gap of 21, repeated voters do not refresh
		sc := &VScenario{N: n, Src: "trap:window" + strconv.Itoa(n)}
		sc.Steps = append(sc.Steps, votes("setConfig", cfg, all[:thr], []int{20})...)
		sc.Steps = append(sc.Steps, votes("setConfig", cfg2, all[:thr], []int{21})...)
		sc.Steps = append(sc.Steps, votes("setConfig", cfg2, append([]string{all[0], all[0]}, all[1:]...), []int{1, 19, 2, 1})...)
		sc.Steps = append(sc.Steps, votes("cheque", chq, append([]string{"x1"}, all...), []int{22, 1, 1})...)
		out = append(out, sc)
		// whole quorum in one block, a stranger's cheque and a competing id in the same block
		sc = &VScenario{N: n, Src: "trap:oneblock" + strconv.Itoa(n)}
		mix := append([]string{"x1"}, all...)
		sc.Steps = append(sc.Steps, votes("cheque", chq, mix, []int{0})...)
		sc.Steps = append(sc.Steps, votes("candRemove", VStep{Cand: "c1"}, append(all, "x2", all[0]), []int{0})...)
		sc.Steps = append(sc.Steps, votes("alphabetUpdate", VStep{ID: "i3", Lst: all}, all, []int{0})...)
		// two ids interleaved
		for i := range all {
			sc.Steps = append(sc.Steps, votes("setConfig", cfg, all[i:i+1], []int{1})...)
			sc.Steps = append(sc.Steps, votes("setConfig", cfg2, all[n-1-i:n-i], []int{0})...)
		}
		// payout larger than the contract's balance when the quorum completes
		sc.Steps = append(sc.Steps, votes("cheque", VStep{ID: "i1", Payee: "p2", Amt: 60}, all, []int{1})...)
		out = append(out, sc)
	}
	// two decisions in flight: an older live ballot of a setConfig round while a candidate removal reaches its quorum
	// (the removal must clear its own ballot only), then the removal of the re-registered candidate starts from zero
	// (seeded change C17d)
	for n := 2; n <= 7; n++ {
		thr := n*2/3 + 1
		var all []string
		for i := 1; i <= n; i++ {
			all = append(all, keyName(i))
		}
		sc := &VScenario{N: n, Src: "trap:cross" + strconv.Itoa(n)}
		sc.Steps = append(sc.Steps, votes("setConfig", cfg, all[:thr-1], []int{1})...)
		sc.Steps = append(sc.Steps, VStep{Act: "candAdd", S: []string{"c1"}, Cand: "c1", Gap: 1})
		sc.Steps = append(sc.Steps, votes("candRemove", VStep{Cand: "c1"}, all[:thr], []int{1})...)
		sc.Steps = append(sc.Steps, votes("setConfig", cfg, all[thr-1:thr], []int{1})...)
		sc.Steps = append(sc.Steps, VStep{Act: "candAdd", S: []string{"c1"}, Cand: "c1", Gap: 1})
		sc.Steps = append(sc.Steps, votes("candRemove", VStep{Cand: "c1"}, all[:1], []int{1})...)
		sc.Steps = append(sc.Steps, votes("candRemove", VStep{Cand: "c1"}, all[:1], []int{1})...)
		out = append(out, sc)
	}
	// the list shrinks while a round is open (the open round is outside the statement: never judged, but the Spec must follow)
	out = append(out, &VScenario{N: 4, Src: "trap:shrink", Steps: append(append(
		votes("setConfig", cfg, []string{"k1", "k2"}, []int{1}),
		votes("alphabetUpdate", VStep{ID: "i2", Lst: []string{"k1"}}, []string{"k1", "k2", "k3"}, []int{1})...),
		votes("setConfig", cfg, []string{"k1", "k1", "k2"}, []int{1})...)})
	// the candidate removes itself; re-registration; malformed arguments
	out = append(out, &VScenario{N: 3, Src: "trap:owner", Steps: []VStep{
		{Act: "candRemove", S: []string{"c1"}, Cand: "c1", Gap: 1}, {Act: "candRemove", S: []string{"c1"}, Cand: "c1", Gap: 1},
		{Act: "candAdd", S: []string{"c1"}, Cand: "c1", Gap: 1}, {Act: "candAdd", S: []string{"c1"}, Cand: "c1", Gap: 1},
		{Act: "candAdd", S: []string{"x1"}, Cand: "c2", Gap: 1}, {Act: "candRemove", S: []string{"c1"}, Cand: "c2", Gap: 1},
		{Act: "alphabetUpdate", S: []string{"k1"}, ID: "i1", Lst: []string{}, Gap: 1},
		{Act: "alphabetUpdate", S: []string{"k1"}, ID: "i1", Lst: []string{"k1", "bad"}, Gap: 1},
		{Act: "setConfig", S: []string{"k1"}, ID: "i1", Key: "empty", Val: "v1", Gap: 1},
		{Act: "setConfig", S: []string{"k2"}, ID: "i1", Key: "empty", Val: "v1", Gap: 1},
		{Act: "setConfig", S: []string{"k3"}, ID: "i1", Key: "empty", Val: "v1", Gap: 1},
	}})
	return out
}

func driveVote(t *testing.T, rec *chain.Recorder, raw []json.RawMessage, traps bool, nrand int, r *rand.Rand, seed int64, shard, nshard int) int {
	var scs []*VScenario
	for i, m := range raw {
		sc := &VScenario{}
		require.NoError(t, json.Unmarshal(m, sc))
		if sc.Src == "" {
			sc.Src = "tlc"
			sc.StrangerCfg = i%2 == 0
		}
		if sc.N == 0 {
			sc.N = 1 + i%7
		}
		scs = append(scs, sc)
	}
	if traps {
		scs = append(scs, voteTraps()...)
	}
	for i := 0; i < nrand; i++ {
		scs = append(scs, randVoteScenario(r))
	}
	for i, sc := range scs {
		if i%nshard != shard {
			continue
		}
		runVoteScenario(t, rec, i, sc, seed)
	}
	return len(scs)
}
