package mainchain

import (
	"bytes"
	"math/big"
	"math/rand"
	"sort"
)

// Shapes of the arguments (and parts of arguments) that the Specs ignore or treat as opaque. They are
// varied deterministically from (seed, scenario, step position), recorded in the trace under "x" (scenario
// level: in the reset record) so that a replay passes exactly the same values; the monitors do not read "x".

// X is a set of named shape choices.
type X map[string]string

func shapeRand(seed int64, idx, pos int) *rand.Rand {
	return rand.New(rand.NewSource(seed*1_000_003 + int64(idx)*1009 + int64(pos)*7 + 5))
}

func pickS(r *rand.Rand, xs ...string) string { return xs[r.Intn(len(xs))] }

// idBytes: decision ids of different lengths: plain, empty + prefixes of one another, long (one a prefix of the next).
func idBytes(family string, k int, plain string) []byte {
	switch family {
	case "prefix":
		return bytes.Repeat([]byte{0}, k) // "", 00, 0000, ...
	case "long":
		return append(bytes.Repeat([]byte{'a'}, 180), bytes.Repeat([]byte{'b'}, k)...)
	case "hashlike":
		b := bytes.Repeat([]byte{0xde}, 32)
		b[31] = byte(k)
		return b
	}
	return []byte(plain)
}

// cfgKeyBytes: configuration keys (model names ka, kb): plain, prefixes of one another and of a key the
// contract already holds ("InnerRingCandidateFee"), longest keys the storage accepts ("config" + 58 bytes).
func cfgKeyBytes(family, name string) []byte {
	a := name == "ka"
	switch family {
	case "prefix":
		if a {
			return []byte("InnerRingCandidateFe")
		}
		return []byte("InnerRingCandidateFee\x00")
	case "long":
		if a {
			return bytes.Repeat([]byte{'k'}, 58)
		}
		return bytes.Repeat([]byte{'k'}, 57)
	case "tiny":
		if a {
			return []byte{0}
		}
		return []byte{0, 0}
	}
	if a {
		return []byte("keyA")
	}
	return []byte("keyB")
}

// cfgValBytes: configuration values (model names v1, v2): plain, empty / one zero byte, long.
func cfgValBytes(family, name string) []byte {
	a := name == "v1"
	switch family {
	case "tiny":
		if a {
			return []byte{}
		}
		return []byte{0}
	case "long":
		if a {
			return bytes.Repeat([]byte{'v'}, 200)
		}
		return bytes.Repeat([]byte{'v'}, 199)
	}
	if a {
		return []byte("val-1")
	}
	return []byte("val-2")
}

// lockArg: the lockAcc argument of cheque (only forwarded into the notification).
func lockArg(shape string) any {
	switch shape {
	case "empty":
		return []byte{}
	case "null":
		return nil
	case "h20":
		return bytes.Repeat([]byte{7}, 20)
	case "long":
		return bytes.Repeat([]byte{7}, 100)
	}
	return []byte("lock")
}

var lockShapes = []string{"bytes", "empty", "null", "h20", "long"}

// dataArg: the `data any` of a NEP-17 transfer / onNEP17Payment call.
func dataArg(shape string, h20 []byte) any {
	switch shape {
	case "null":
		return nil
	case "bytes0":
		return []byte{}
	case "int0":
		return int64(0)
	case "arr0":
		return []any{}
	case "b1":
		return []byte{1}
	case "b2":
		return []byte{0x57, 0x0c}
	case "b3":
		return []byte{0x57, 0x0b, 0x00}
	case "b19":
		return make([]byte, 19)
	case "b20":
		return h20
	case "b21":
		return make([]byte, 21)
	case "b33":
		return make([]byte, 33)
	case "int5":
		return int64(5)
	case "intmagic":
		return int64(0x0b57) // the integer whose encoding is 57 0b
	case "int20":
		return new(big.Int).Lsh(big.NewInt(1), 155) // an integer with a 20-byte encoding
	case "arr3":
		return []any{int64(1), []byte{2}, nil}
	case "arr20":
		a := make([]any, 20)
		for i := range a {
			a[i] = int64(i)
		}
		return a
	case "true":
		return true
	case "magic":
		return []byte{0x57, 0x0b}
	}
	panic("unknown data shape " + shape)
}

// depositShapes: concrete shapes of each model data kind of a deposit (the kind is what the Spec sees:
// none = null, empty = length 0, h20 = a 20-byte receiver, b19/b21 = any other length, magic = the marker).
var depositShapes = map[string][]string{
	"none":  {"null"},
	"empty": {"bytes0", "int0"},
	"h20":   {"b20", "b20", "int20"}, // an integer with a 20-byte encoding is taken as the receiver with these bytes ("q20")
	"b19":   {"b19", "b1", "b2", "int5", "arr3", "arr0"}, // arrays cannot be converted to bytes: the callback faults
	"b21":   {"b21", "b33", "b3", "true", "arr20"},
	"magic": {"magic", "intmagic"}, // the integer 0x0b57 has the marker's encoding and is taken for it
}

// anyData: shapes for payments whose receiver ignores the data.
var anyData = []string{"null", "bytes0", "int0", "arr0", "b1", "b19", "b20", "b21", "b33", "int5", "int20", "arr3", "arr20", "true", "magic"}

func sortedKeys(x X) []string {
	ks := make([]string, 0, len(x))
	for k := range x {
		ks = append(ks, k)
	}
	sort.Strings(ks)
	return ks
}

// keyList: the key-list argument of bind/unbind: count, order, duplicates, empty list.
func keyList(shape string, pubs [][]byte) []any {
	var out []any
	switch shape {
	case "empty":
		return []any{}
	case "one":
		out = append(out, pubs[0])
	case "dup":
		out = append(out, pubs[0], pubs[1], pubs[0], pubs[0])
	case "rev":
		for i := len(pubs) - 1; i >= 0; i-- {
			out = append(out, pubs[i])
		}
	default: // many
		for _, p := range pubs {
			out = append(out, p)
		}
	}
	return out
}
