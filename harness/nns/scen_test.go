package nns

import (
	"math/rand"
	"strconv"
)

func s(xs ...string) []string { return append([]string{}, xs...) }

// tick advances d instants; expire arguments of the helpers below are in units (= B instants)
func tick(d int64) Step { return Step{Act: "tick", S: s(), N: "nil", O: "nil", M: "nil", X: d, Ty: "nil", D: "nil"} }
func regTLD(S []string, n string, x int64) Step {
	return Step{Act: "registerTLD", S: S, N: n, O: "nil", M: "m1", X: x * B, Ty: "nil", D: "nil"}
}
func reg(S []string, n, o string, x int64) Step {
	return Step{Act: "register", S: S, N: n, O: o, M: "m1", X: x * B, Ty: "nil", D: "nil"}
}
func xfer(S []string, n, to string) Step {
	return Step{Act: "transfer", S: S, N: n, O: to, M: "nil", Ty: "nil", D: "nil"}
}
func renew(S []string, n string, y int64) Step {
	return Step{Act: "renew", S: S, N: n, O: "nil", M: "nil", X: y, Ty: "nil", D: "nil"}
}
func setAdmin(S []string, n, a string) Step {
	return Step{Act: "setAdmin", S: S, N: n, O: a, M: "nil", Ty: "nil", D: "nil"}
}
func updSOA(S []string, n, m string, x int64) Step {
	return Step{Act: "updateSOA", S: S, N: n, O: "nil", M: m, X: x * B, Ty: "nil", D: "nil"}
}
func add(S []string, n, ty, d string) Step {
	return Step{Act: "addRecord", S: S, N: n, O: "nil", M: "nil", Ty: ty, D: d}
}
func set(S []string, n, ty string, id int64, d string) Step {
	return Step{Act: "setRecord", S: S, N: n, O: "nil", M: "nil", X: id, Ty: ty, D: d}
}
func del(S []string, n, ty string) Step {
	return Step{Act: "deleteRecords", S: S, N: n, O: "nil", M: "nil", Ty: ty, D: "nil"}
}
func via(st Step) Step { st.Via = true; return st }

// traps: witnesses of rare branches and of the defects found
func traps() []*Scenario {
	o1, o2, o3, cmt := s("o1"), s("o2"), s("o3"), s("CMT")
	return []*Scenario{
		// DESIGN 5.4 row 8: records of a name two levels below its token
		{CN: 3, Src: "trap:deepsub", Steps: []Step{
			reg(o1, "a.t", "o1", 8), add(o1, "b.a.t", "A", "1.1.1.1"), add(o1, "c.b.a.t", "A", "2.2.2.2"), add(o1, "c.b.a.t", "TXT", "x"),
			set(o1, "c.b.a.t", "A", 0, "3.3.3.3"), reg(o1, "b.a.t", "o2", 8), del(o1, "c.b.a.t", "A"), del(o1, "c.b.a.t", "TXT"),
			reg(s("o1", "o2"), "b.a.t", "o2", 2), add(o2, "c.b.a.t", "A", "2.2.2.2"), add(o2, "d.c.b.a.t", "TXT", "y"), tick(9),
			add(o1, "d.c.b.a.t", "TXT", "z"), reg(s("o1", "o3"), "b.a.t", "o3", 3)}},
		// setRecord can store a value twice
		{CN: 1, Src: "trap:setdup", Steps: []Step{
			reg(o1, "a.t", "o1", 8), add(o1, "a.t", "TXT", "x"), add(o1, "a.t", "TXT", "y"), add(o1, "a.t", "TXT", "x"),
			set(o1, "a.t", "TXT", 1, "z"), set(o1, "a.t", "TXT", 2, "w"), set(o1, "a.t", "TXT", 1, "x"), del(o1, "a.t", "TXT"),
			add(o1, "a.t", "CNAME", "b.t"), add(o1, "a.t", "CNAME", "a.u"), set(o1, "a.t", "CNAME", 0, "a.u"), del(o1, "a.t", "SOA"),
			add(o1, "a.t", "SOA", "x"), add(o1, "a.t", "BAD", "x"), del(o1, "a.t", "BAD")}},
		// expiry boundary hit exactly (instants exp-1, exp, exp+1), takeover by another owner, renew bounds
		{CN: 4, Src: "trap:expiry", Steps: []Step{
			reg(o1, "a.t", "o1", 2) /* at 1, exp 9 */, add(o1, "a.t", "A", "1.1.1.1"), setAdmin(s("o1", "o3"), "a.t", "o3"), tick(3),
			reg(o2, "a.t", "o2", 2) /* at 7: taken; reads at 8 = exp-1 */, add(o1, "a.t", "A", "2.2.2.2") /* at 8; reads at 9 = exp */,
			renew(o1, "a.t", 1) /* at 9: expired */, xfer(o1, "a.t", "o2"), reg(o2, "a.t", "o2", 3) /* at 11: takeover, exp 23 */,
			reg(o1, "b.t", "o1", 1) /* at 12, exp 16 */, tick(3), reg(o2, "b.t", "o2", 1) /* at 16 = exp: takeover, exp 20 */,
			reg(o3, "b.t", "o3", 1) /* at 17 */, tick(1), reg(o3, "b.t", "o3", 1) /* at 19 = exp-1: taken */,
			reg(o3, "b.t", "o3", 1) /* at 20 = exp */, add(o3, "a.t", "TXT", "x"), add(o2, "a.t", "TXT", "x"),
			renew(o2, "a.t", 9) /* at 23?: see monitor */, renew(o2, "a.t", 1), renew(o2, "a.t", 10), renew(o2, "a.t", 11), renew(o2, "a.t", 0),
			renew(cmt, "t", 10), renew(cmt, "t", 10), renew(o1, "t", 1)}},
		// renew up to exactly ten years ahead
		{CN: 1, Src: "trap:renewbound", Steps: []Step{
			reg(o1, "a.t", "o1", 4) /* at 1, exp 17 */, renew(o1, "a.t", 9) /* at 2: 161 <= 162 */, renew(o1, "a.t", 1) /* at 3: 177 > 163 */,
			tick(12), renew(o1, "a.t", 1) /* at 16: 177 > 176 */, renew(o1, "a.t", 1) /* at 17: 177 <= 177 */, renew(o1, "a.t", 1),
			reg(o2, "b.t", "o2", 40) /* ten years at registration */, renew(o2, "b.t", 1), tick(16), renew(o2, "b.t", 1), renew(o2, "b.t", 1)}},
		// CNAME chains of 1..4 links and a cycle
		{CN: 7, Src: "trap:cname", Steps: []Step{
			regTLD(cmt, "u", 40), reg(o1, "a.t", "o1", 8), reg(o1, "b.t", "o1", 8), reg(o1, "a.u", "o1", 8), reg(o1, "c.a.t", "o1", 8),
			reg(o1, "b.a.t", "o1", 8),
			add(o1, "b.a.t", "A", "1.1.1.1"), add(o1, "c.a.t", "A", "2.2.2.2"), add(o1, "a.u", "A", "3.3.3.3"), add(o1, "b.t", "A", "4.4.4.4"),
			add(o1, "a.t", "A", "5.5.5.5"), add(o1, "a.t", "TXT", "x"),
			add(o1, "c.a.t", "CNAME", "b.a.t"), add(o1, "a.u", "CNAME", "c.a.t"), add(o1, "b.t", "CNAME", "a.u"), add(o1, "a.t", "CNAME", "b.t"),
			add(o1, "b.a.t", "CNAME", "a.t"), del(o1, "b.a.t", "CNAME"), add(o1, "b.a.t", "CNAME", "b.a.t"), del(o1, "c.a.t", "CNAME"),
			add(o1, "c.a.t", "CNAME", "d.c.b.a.t"), tick(40)}},
		// 16 values per list
		func() *Scenario {
			sc := &Scenario{CN: 1, Src: "trap:sixteen", Steps: []Step{reg(o1, "a.t", "o1", 8)}}
			for i := 0; i < 18; i++ {
				sc.Steps = append(sc.Steps, add(o1, "b.a.t", "TXT", "v"+strconv.Itoa(i)))
			}
			sc.Steps = append(sc.Steps, set(o1, "b.a.t", "TXT", 15, "w"), set(o1, "b.a.t", "TXT", 16, "w"), add(o1, "b.a.t", "TXT", "v3"),
				del(o1, "b.a.t", "TXT"), add(o1, "b.a.t", "TXT", "v16"))
			return sc
		}(),
		// a contract as owner and admin; the committee as owner; TLD expiry and re-registration
		{CN: 3, Src: "trap:contract", Steps: []Step{
			via(reg(s(), "a.t", "kc", 12)), reg(s(), "b.t", "kc", 4), via(add(s(), "a.t", "A", "1.1.1.1")), add(s("X"), "a.t", "A", "2.2.2.2"),
			via(reg(s("o1"), "b.a.t", "o1", 12)), via(xfer(s(), "a.t", "o2")), via(add(s(), "a.t", "TXT", "x")), xfer(o2, "a.t", "kc"),
			xfer(o2, "a.t", "o2"), via(setAdmin(s(), "a.t", "o1")), via(setAdmin(s("o1"), "a.t", "o1")), via(xfer(s(), "a.t", "kc")),
			reg(cmt, "b.t", "CMT", 12), add(s("ALPHA"), "b.t", "TXT", "x"), add(s("M1"), "b.t", "TXT", "x"), add(cmt, "b.t", "TXT", "x"),
			regTLD(s("ALPHA"), "u", 2), regTLD(cmt, "u", 2), regTLD(cmt, "u", 2), reg(o1, "a.u", "o1", 8), add(o1, "a.u", "A", "1.1.1.1"), tick(8),
			reg(o2, "a.u", "o2", 8), xfer(o1, "a.u", "o2"), regTLD(o1, "u", 3), regTLD(cmt, "u", 3), add(o1, "a.u", "A", "2.2.2.2"),
			updSOA(o1, "a.u", "m2", 5), updSOA(o1, "u", "m2", 5), updSOA(cmt, "u", "m2", 5)}},
		// names of level 4 and 5 whose ancestors have DIFFERENT owners: only the owner/admin of the directly
		// enclosing name may register (seeded change C11-admin-of-second-level)
		{CN: 3, Src: "trap:deepparent", Steps: []Step{
			reg(o1, "a.t", "o1", 12), reg(s("o1", "o2"), "b.a.t", "o2", 12),
			reg(s("o1"), "c.b.a.t", "o1", 8) /* grandparent owner alone: refused */, reg(s("o1", "o3"), "c.b.a.t", "o3", 8), /* refused */
			reg(s("o2"), "c.b.a.t", "o2", 8) /* parent owner: accepted */,
			reg(s("o1", "o3"), "d.c.b.a.t", "o3", 4) /* refused */, reg(s("o2", "o3"), "d.c.b.a.t", "o3", 4) /* accepted */,
			setAdmin(s("o2", "o3"), "b.a.t", "o3"), xfer(o2, "c.b.a.t", "o1"), tick(5),
			reg(s("o2", "o3"), "d.c.b.a.t", "o3", 4) /* o2 no longer owns c.b.a.t: refused */,
			reg(s("o1", "o2"), "d.c.b.a.t", "o2", 4) /* accepted: o1 owns c.b.a.t now */,
			setAdmin(s("o1", "o3"), "c.b.a.t", "o3"), tick(5), reg(s("o3"), "d.c.b.a.t", "o3", 4) /* admin of the parent: accepted */,
			reg(s("o3", "o2"), "c.a.t", "o2", 4) /* o3 is admin of b.a.t, not of a.t: refused */, reg(s("o1", "o2"), "c.a.t", "o2", 4)}},
		// former owner / former admin / parent owner after transfers
		{CN: 4, Src: "trap:former", Steps: []Step{
			reg(o1, "a.t", "o1", 8), reg(o1, "b.a.t", "o2", 8), reg(s("o1", "o2"), "b.a.t", "o2", 8), setAdmin(o2, "b.a.t", "o3"),
			setAdmin(s("o2", "o3"), "b.a.t", "o3"), add(o3, "b.a.t", "A", "1.1.1.1"), add(o1, "b.a.t", "A", "2.2.2.2"),
			reg(s("o3", "o1"), "c.b.a.t", "o1", 4), xfer(o3, "b.a.t", "o3"), xfer(o2, "b.a.t", "o1"), add(o3, "b.a.t", "A", "2.2.2.2"),
			add(o2, "b.a.t", "A", "2.2.2.2"), renew(o2, "b.a.t", 1), updSOA(o3, "b.a.t", "m2", 3), del(o2, "b.a.t", "A"), setAdmin(o2, "b.a.t", "nil"),
			setAdmin(o1, "b.a.t", "nil"), reg(s("o2"), "c.b.a.t", "o2", 4), tick(17), reg(s("o2"), "c.b.a.t", "o2", 4), reg(s("o1", "o2"), "c.b.a.t", "o2", 4),
			xfer(o1, "c.b.a.t", "o3")}},
	}
}

// ---- seeded random scenarios: same vocabulary, guided by a rough model of ownership so that a
// good share of the calls is authorised ----
func randScenarios(seed int64, n int) []*Scenario {
	r := rand.New(rand.NewSource(seed*104729 + 7))
	var out []*Scenario
	for i := 0; i < n; i++ {
		out = append(out, randScenario(r))
	}
	return out
}

func randScenario(r *rand.Rand) *Scenario {
	cns := []int{1, 3, 4, 7}
	sc := &Scenario{CN: cns[r.Intn(len(cns))], Src: "rand"}
	type st struct {
		owner, admin string
		exp          int64
	}
	reg0 := map[string]*st{"t": {"nil", "nil", 10 * year}}
	now := int64(0)
	par := func(n string) string {
		for i := 0; i < len(n); i++ {
			if n[i] == '.' {
				return n[i+1:]
			}
		}
		return ""
	}
	alive := func(n string) bool { x := reg0[n]; return x != nil && now < x.exp }
	var token func(n string) string
	token = func(n string) string {
		for m := n; par(m) != ""; m = par(m) {
			if alive(m) {
				return m
			}
		}
		return n
	}
	users := []string{"o1", "o2", "o3"}
	pick := func(xs []string) string { return xs[r.Intn(len(xs))] }
	data := map[string][]string{"A": {"1.1.1.1", "2.2.2.2", "3.3.3.3", "8.8.4.4"}, "TXT": {"x", "y", "z", "some text"},
		"AAAA": {"2001:470::1", "2a00::2"}, "CNAME": ntNames}
	types := []string{"A", "A", "TXT", "TXT", "CNAME", "CNAME", "AAAA", "SOA", "BAD"}
	// signers for an action on behalf of the holder of name n (plus `extra`)
	sig := func(n string, extra ...string) ([]string, bool) {
		k := r.Intn(10)
		x := reg0[n]
		S := append([]string{}, extra...)
		viaKC := false
		switch {
		case k < 6 && x != nil:
			if x.owner == "kc" {
				viaKC = true
			} else if x.owner == "nil" {
				S = append(S, "CMT")
			} else {
				S = append(S, x.owner)
			}
		case k == 6 && x != nil && x.admin != "nil":
			if x.admin == "kc" {
				viaKC = true
			} else {
				S = append(S, x.admin)
			}
		case k == 7:
			S = append(S, pick([]string{"X", "M1", "ALPHA", "CMT"}))
		case k == 8:
			S = append(S, pick(users))
		}
		for _, e := range extra {
			if e == "kc" {
				viaKC = true
			}
		}
		m := map[string]bool{}
		var o []string
		for _, x := range S {
			if x != "kc" && x != "nil" && !m[x] {
				m[x] = true
				o = append(o, x)
			}
		}
		if o == nil {
			o = []string{}
		}
		return o, viaKC
	}
	nsteps := 12 + r.Intn(28)
	now++ // the deployment block is instant 0
	for i := 0; i < nsteps; i++ {
		if i > 0 {
			now++ // every step is one block
		}
		n := pick(ntNames)
		switch k := r.Intn(30); {
		case k < 3:
			d := int64(1 + r.Intn(9))
			now += d - 1
			sc.Steps = append(sc.Steps, tick(d))
		case k < 4:
			S := []string{"CMT"}
			if r.Intn(4) == 0 {
				S = []string{pick([]string{"o1", "ALPHA", "M1"})}
			}
			x := int64(1 + r.Intn(12))
			tld := pick([]string{"u", "u", "t"})
			sc.Steps = append(sc.Steps, regTLD(S, tld, x))
			if S[0] == "CMT" && !alive(tld) {
				reg0[tld] = &st{"nil", "nil", now + x*B}
			}
		case k < 11:
			o := pick([]string{"o1", "o1", "o2", "o2", "o3", "kc", "CMT"})
			x := int64(1 + r.Intn(6))
			p := par(n)
			var S []string
			v := false
			if par(p) != "" {
				S, v = sig(p, o)
			} else {
				S, v = sig("", o)
			}
			stp := reg(S, n, o, x)
			stp.Via = v
			sc.Steps = append(sc.Steps, stp)
			// rough prediction (the monitor does the exact bookkeeping)
			ok := !alive(n)
			for m := p; m != ""; m = par(m) {
				ok = ok && alive(m)
			}
			if ok {
				reg0[n] = &st{o, "nil", now + x*B}
			}
		case k < 14:
			to := pick(owners)
			S, v := sig(n)
			stp := xfer(S, n, to)
			stp.Via = v
			sc.Steps = append(sc.Steps, stp)
			if x := reg0[n]; x != nil && alive(n) && len(S) > 0 && S[0] == x.owner {
				x.owner, x.admin = to, "nil"
			}
		case k < 16:
			y := int64(1 + r.Intn(10))
			if r.Intn(8) == 0 {
				y = int64(r.Intn(13))
			}
			m := n
			if r.Intn(6) == 0 {
				m = pick([]string{"t", "u"})
			}
			S, v := sig(m)
			stp := renew(S, m, y)
			stp.Via = v
			sc.Steps = append(sc.Steps, stp)
		case k < 18:
			a := pick([]string{"o1", "o2", "o3", "kc", "nil"})
			S, v := sig(n, a)
			stp := setAdmin(S, n, a)
			stp.Via = v
			sc.Steps = append(sc.Steps, stp)
			if x := reg0[n]; x != nil && alive(n) && len(S) > 0 {
				x.admin = a
			}
		case k < 19:
			S, v := sig(n)
			stp := updSOA(S, n, pick([]string{"m1", "m2"}), int64(1+r.Intn(5)))
			stp.Via = v
			sc.Steps = append(sc.Steps, stp)
		case k < 25:
			ty := pick(types)
			d := "x"
			if l, ok := data[ty]; ok {
				d = pick(l)
			}
			S, v := sig(token(n))
			stp := add(S, n, ty, d)
			stp.Via = v
			sc.Steps = append(sc.Steps, stp)
		case k < 28:
			ty := pick(types)
			d := "x"
			if l, ok := data[ty]; ok {
				d = pick(l)
			}
			S, v := sig(token(n))
			stp := set(S, n, ty, int64(r.Intn(3)), d)
			stp.Via = v
			sc.Steps = append(sc.Steps, stp)
		default:
			S, v := sig(token(n))
			stp := del(S, n, pick(types))
			stp.Via = v
			sc.Steps = append(sc.Steps, stp)
		}
	}
	return sc
}
