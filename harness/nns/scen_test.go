package nns

import (
	"math/rand"
	"sort"
	"strconv"
	"strings"
)

func s(xs ...string) []string { return append([]string{}, xs...) }

// tick advances d instants; expire arguments of the helpers below are in units (= B instants)
func tick(d int64) Step { return Step{Act: "tick", S: s(), N: "nil", O: "nil", M: "nil", X: d, Ty: "nil", D: "nil"} }
func regTLD(S []string, n string, x int64) Step {
	return Step{Act: "registerTLD", S: S, N: n, O: "nil", M: "m1", X: x * B, Ty: "nil", D: "nil"}
}
func reg(S []string, n, o string, x int64) Step {
	return Step{Act: "register", S: S, N: n, O: o, M: "m1", X: x * B, Ty: "nil", D: "nil"}
}
func xfer(S []string, n, to string) Step {
	return Step{Act: "transfer", S: S, N: n, O: to, M: "nil", Ty: "nil", D: "nil"}
}
func renew(S []string, n string, y int64) Step {
	return Step{Act: "renew", S: S, N: n, O: "nil", M: "nil", X: y, Ty: "nil", D: "nil"}
}
func setAdmin(S []string, n, a string) Step {
	return Step{Act: "setAdmin", S: S, N: n, O: a, M: "nil", Ty: "nil", D: "nil"}
}
func updSOA(S []string, n, m string, x int64) Step {
	return Step{Act: "updateSOA", S: S, N: n, O: "nil", M: m, X: x * B, Ty: "nil", D: "nil"}
}
func add(S []string, n, ty, d string) Step {
	return Step{Act: "addRecord", S: S, N: n, O: "nil", M: "nil", Ty: ty, D: d}
}
func set(S []string, n, ty string, id int64, d string) Step {
	return Step{Act: "setRecord", S: S, N: n, O: "nil", M: "nil", X: id, Ty: ty, D: d}
}
func del(S []string, n, ty string) Step {
	return Step{Act: "deleteRecords", S: S, N: n, O: "nil", M: "nil", Ty: ty, D: "nil"}
}
func setPrice(S []string, p int64) Step { // p in price units (16 = 1 GAS)
	return Step{Act: "setPrice", S: S, N: "nil", O: "nil", M: "nil", X: p, Ty: "nil", D: "nil"}
}
func via(st Step) Step { st.Via = true; return st }

// traps: witnesses of rare branches and of the defects found
func traps() []*Scenario {
	o1, o2, o3, cmt := s("o1"), s("o2"), s("o3"), s("CMT")
	return []*Scenario{
		// DESIGN 5.4 row 8: records of a name two levels below its token
		{CN: 3, Src: "trap:deepsub", Steps: []Step{
			reg(o1, "a.t", "o1", 8), add(o1, "b.a.t", "A", "1.1.1.1"), add(o1, "c.b.a.t", "A", "2.2.2.2"), add(o1, "c.b.a.t", "TXT", "x"),
			set(o1, "c.b.a.t", "A", 0, "3.3.3.3"), reg(o1, "b.a.t", "o2", 8), del(o1, "c.b.a.t", "A"), del(o1, "c.b.a.t", "TXT"),
			reg(s("o1", "o2"), "b.a.t", "o2", 2), add(o2, "c.b.a.t", "A", "2.2.2.2"), add(o2, "d.c.b.a.t", "TXT", "y"), tick(9),
			add(o1, "d.c.b.a.t", "TXT", "z"), reg(s("o1", "o3"), "b.a.t", "o3", 3)}},
		// setRecord can store a value twice
		{CN: 1, Src: "trap:setdup", Steps: []Step{
			reg(o1, "a.t", "o1", 8), add(o1, "a.t", "TXT", "x"), add(o1, "a.t", "TXT", "y"), add(o1, "a.t", "TXT", "x"),
			set(o1, "a.t", "TXT", 1, "z"), set(o1, "a.t", "TXT", 2, "w"), set(o1, "a.t", "TXT", 1, "x"), del(o1, "a.t", "TXT"),
			add(o1, "a.t", "CNAME", "b.t"), add(o1, "a.t", "CNAME", "a.u"), set(o1, "a.t", "CNAME", 0, "a.u"), del(o1, "a.t", "SOA"),
			add(o1, "a.t", "SOA", "x"), add(o1, "a.t", "BAD", "x"), del(o1, "a.t", "BAD")}},
		// setRecord against the values of the OTHER indexes in both directions (lower -> higher, higher -> lower),
		// its own value, a new value; for a registered name and for sub-names one and two levels below the token;
		// the single-CNAME rule through setRecord; delete and re-add (seeded change C12c-setrecord-scan-stops)
		func() *Scenario {
			sc := &Scenario{CN: 3, Src: "trap:setrecorddirs", Steps: []Step{reg(o1, "a.t", "o1", 30)}}
			for _, nt := range [][2]string{{"a.t", "TXT"}, {"b.a.t", "A"}, {"c.b.a.t", "TXT"}} {
				n, ty := nt[0], nt[1]
				v := []string{"a", "b", "c", "d"}
				if ty == "A" {
					v = []string{"9.9.9.1", "9.9.9.2", "9.9.9.3", "9.9.9.4"}
				}
				sc.Steps = append(sc.Steps, add(o1, n, ty, v[0]), add(o1, n, ty, v[1]), add(o1, n, ty, v[2]),
					set(o1, n, ty, 0, v[1]) /* held at 1 (higher): refused */, set(o1, n, ty, 0, v[2]) /* held at 2: refused */,
					set(o1, n, ty, 1, v[2]) /* refused */, set(o1, n, ty, 2, v[0]) /* held at 0 (lower): refused */,
					set(o1, n, ty, 1, v[0]) /* refused */, set(o1, n, ty, 2, v[1]) /* refused */,
					set(o1, n, ty, 1, v[1]) /* own value: accepted */, set(o1, n, ty, 1, v[3]) /* new: accepted */,
					add(o1, n, ty, v[3]) /* present at 1: refused */, add(o1, n, ty, v[1]) /* free again: id 3 */,
					set(o1, n, ty, 0, v[1]) /* held at 3: refused */, set(o1, n, ty, 3, v[0]) /* held at 0: refused */,
					del(o1, n, ty), set(o1, n, ty, 0, v[0]) /* invalid id */, add(o1, n, ty, v[2]), add(o1, n, ty, v[0]),
					set(o1, n, ty, 0, v[0]) /* held at 1: refused */, set(o1, n, ty, 1, v[2]) /* held at 0: refused */)
			}
			sc.Steps = append(sc.Steps, add(o1, "a.t", "CNAME", "b.t"), set(o1, "a.t", "CNAME", 0, "a.u"), set(o1, "a.t", "CNAME", 0, "a.u"),
				set(o1, "a.t", "CNAME", 1, "b.t") /* invalid id */, add(o1, "a.t", "CNAME", "b.t") /* second CNAME: refused */,
				del(o1, "a.t", "CNAME"), add(o1, "a.t", "CNAME", "b.t"))
			return sc
		}(),
		// arguments the Spec treats as opaque: e-mail shapes, refresh/retry/ttl boundaries, expire 0 and negative,
		// transfer data shapes to a plain account and to a contract, Buffer arguments, both renew overloads
		func() *Scenario {
			ax := func(st Step, a Aux) Step { st.Aux = &a; return st }
			ml := func(st Step, m string) Step { st.M = m; return st }
			big := int64(1) << 40
			sc := &Scenario{CN: 4, Src: "trap:opaqueargs", Steps: []Step{
				ax(ml(reg(o1, "a.t", "o1", 20), "ops@nspcc.io"), Aux{Refresh: 0, Retry: -1, TTL: big, Data: "null"}),
				add(o1, "a.t", "TXT", "x"), ax(ml(updSOA(o1, "a.t", "m1", 3), strings.Repeat("m", 255)), Aux{Refresh: big, Retry: 0, TTL: -1}),
				add(o1, "a.t", "TXT", "y"), ax(ml(reg(o2, "b.t", "o2", 20), ""), Aux{Refresh: 1, Retry: 1, TTL: 1}),
				add(o2, "b.t", "TXT", "x") /* empty e-mail: the SOA record has 6 fields */, set(o2, "b.t", "TXT", 0, "y"), del(o2, "b.t", "TXT"),
				ax(ml(updSOA(o2, "b.t", "m1", 3), "a b"), *plainAux()), add(o2, "b.t", "TXT", "x") /* 8 fields */,
				ax(ml(updSOA(o2, "b.t", "m1", 3), "m2"), *plainAux()), add(o2, "b.t", "TXT", "x"),
				ax(reg(o3, "a.u", "o3", 0), *plainAux()), regTLD(cmt, "u", 20), ax(reg(o3, "a.u", "o3", 0), *plainAux()) /* expire 0 */,
				ax(reg(o3, "a.u", "o3", -1), *plainAux()) /* negative expire */, reg(o3, "a.u", "o3", 20)}}
			for _, d := range []string{"null", "empty", "bytes", "int", "array", "map"} {
				sc.Steps = append(sc.Steps, ax(xfer(o1, "a.t", "o2"), Aux{Data: d, Buf: d == "bytes" || d == "int"}), ax(xfer(o2, "a.t", "kc"), Aux{Data: d, Buf: d == "map"}),
					ax(via(xfer(s(), "a.t", "o1")), Aux{Data: d}))
			}
			// a Buffer receiver is stored as a Buffer owner: the next self-transfer (ByteString) clears the admin, the one after keeps it
			sc.Steps = append(sc.Steps, ax(xfer(o1, "a.t", "o2"), Aux{Data: "null", Buf: true}), setAdmin(s("o2", "o3"), "a.t", "o3"),
				ax(xfer(o2, "a.t", "o2"), Aux{Data: "null"}), setAdmin(s("o2", "o3"), "a.t", "o3"), ax(xfer(o2, "a.t", "o2"), Aux{Data: "int"}),
				ax(xfer(o2, "a.t", "o2"), Aux{Data: "null", Buf: true}), setAdmin(s("o2", "o3"), "a.t", "o3"), ax(xfer(o2, "a.t", "o1"), Aux{Data: "null"}))
			sc.Steps = append(sc.Steps, ax(renew(o1, "a.t", 1), Aux{Ov1: true}), ax(renew(o1, "a.t", 1), Aux{Ov1: false}), ax(renew(o2, "a.t", 1), Aux{Ov1: true}),
				ax(renew(cmt, "t", 1), Aux{Ov1: true}), set(o1, "a.t", "TXT", 255, "z"), set(o1, "a.t", "TXT", 256, "z"), set(o1, "a.t", "TXT", -1, "z"))
			return sc
		}(),
		// expiry boundary hit exactly (instants exp-1, exp, exp+1), takeover by another owner, renew bounds
		{CN: 4, Src: "trap:expiry", Steps: []Step{
			reg(o1, "a.t", "o1", 2) /* at 1, exp 9 */, add(o1, "a.t", "A", "1.1.1.1"), setAdmin(s("o1", "o3"), "a.t", "o3"), tick(3),
			reg(o2, "a.t", "o2", 2) /* at 7: taken; reads at 8 = exp-1 */, add(o1, "a.t", "A", "2.2.2.2") /* at 8; reads at 9 = exp */,
			renew(o1, "a.t", 1) /* at 9: expired */, xfer(o1, "a.t", "o2"), reg(o2, "a.t", "o2", 3) /* at 11: takeover, exp 23 */,
			reg(o1, "b.t", "o1", 1) /* at 12, exp 16 */, tick(3), reg(o2, "b.t", "o2", 1) /* at 16 = exp: takeover, exp 20 */,
			reg(o3, "b.t", "o3", 1) /* at 17 */, tick(1), reg(o3, "b.t", "o3", 1) /* at 19 = exp-1: taken */,
			reg(o3, "b.t", "o3", 1) /* at 20 = exp */, add(o3, "a.t", "TXT", "x"), add(o2, "a.t", "TXT", "x"),
			renew(o2, "a.t", 9) /* at 23?: see monitor */, renew(o2, "a.t", 1), renew(o2, "a.t", 10), renew(o2, "a.t", 11), renew(o2, "a.t", 0),
			renew(cmt, "t", 10), renew(cmt, "t", 10), renew(o1, "t", 1)}},
		// renew up to exactly ten years ahead
		{CN: 1, Src: "trap:renewbound", Steps: []Step{
			reg(o1, "a.t", "o1", 4) /* at 1, exp 17 */, renew(o1, "a.t", 9) /* at 2: 161 <= 162 */, renew(o1, "a.t", 1) /* at 3: 177 > 163 */,
			tick(12), renew(o1, "a.t", 1) /* at 16: 177 > 176 */, renew(o1, "a.t", 1) /* at 17: 177 <= 177 */, renew(o1, "a.t", 1),
			reg(o2, "b.t", "o2", 40) /* ten years at registration */, renew(o2, "b.t", 1), tick(16), renew(o2, "b.t", 1), renew(o2, "b.t", 1)}},
		// CNAME chains of 1..4 links and a cycle
		{CN: 7, Src: "trap:cname", Steps: []Step{
			regTLD(cmt, "u", 40), reg(o1, "a.t", "o1", 8), reg(o1, "b.t", "o1", 8), reg(o1, "a.u", "o1", 8), reg(o1, "c.a.t", "o1", 8),
			reg(o1, "b.a.t", "o1", 8),
			add(o1, "b.a.t", "A", "1.1.1.1"), add(o1, "c.a.t", "A", "2.2.2.2"), add(o1, "a.u", "A", "3.3.3.3"), add(o1, "b.t", "A", "4.4.4.4"),
			add(o1, "a.t", "A", "5.5.5.5"), add(o1, "a.t", "TXT", "x"),
			add(o1, "c.a.t", "CNAME", "b.a.t"), add(o1, "a.u", "CNAME", "c.a.t"), add(o1, "b.t", "CNAME", "a.u"), add(o1, "a.t", "CNAME", "b.t"),
			add(o1, "b.a.t", "CNAME", "a.t"), del(o1, "b.a.t", "CNAME"), add(o1, "b.a.t", "CNAME", "b.a.t"), del(o1, "c.a.t", "CNAME"),
			add(o1, "c.a.t", "CNAME", "d.c.b.a.t"), tick(40)}},
		// 16 values per list
		func() *Scenario {
			sc := &Scenario{CN: 1, Src: "trap:sixteen", Steps: []Step{reg(o1, "a.t", "o1", 8)}}
			for i := 0; i < 18; i++ {
				sc.Steps = append(sc.Steps, add(o1, "b.a.t", "TXT", "v"+strconv.Itoa(i)))
			}
			sc.Steps = append(sc.Steps, set(o1, "b.a.t", "TXT", 15, "v0") /* held at 0: refused */, set(o1, "b.a.t", "TXT", 0, "v15") /* held at 15: refused */,
				set(o1, "b.a.t", "TXT", 7, "v8"), set(o1, "b.a.t", "TXT", 8, "v7"), set(o1, "b.a.t", "TXT", 15, "v15") /* own value */,
				set(o1, "b.a.t", "TXT", 15, "w"), set(o1, "b.a.t", "TXT", 16, "w"), set(o1, "b.a.t", "TXT", 0, "w") /* held at 15 now */,
				add(o1, "b.a.t", "TXT", "v3"), add(o1, "b.a.t", "TXT", "w"), add(o1, "b.a.t", "TXT", "v15") /* free value, full list */,
				del(o1, "b.a.t", "TXT"), set(o1, "b.a.t", "TXT", 0, "v0") /* emptied: invalid id */, add(o1, "b.a.t", "TXT", "v16"),
				add(o1, "b.a.t", "TXT", "v0"), set(o1, "b.a.t", "TXT", 0, "v0"), set(o1, "b.a.t", "TXT", 1, "v16"))
			return sc
		}(),
		// a contract as owner and admin; the committee as owner; TLD expiry and re-registration
		{CN: 3, Src: "trap:contract", Steps: []Step{
			via(reg(s(), "a.t", "kc", 12)), reg(s(), "b.t", "kc", 4), via(add(s(), "a.t", "A", "1.1.1.1")), add(s("X"), "a.t", "A", "2.2.2.2"),
			via(reg(s("o1"), "b.a.t", "o1", 12)), via(xfer(s(), "a.t", "o2")), via(add(s(), "a.t", "TXT", "x")), xfer(o2, "a.t", "kc"),
			xfer(o2, "a.t", "o2"), via(setAdmin(s(), "a.t", "o1")), via(setAdmin(s("o1"), "a.t", "o1")), via(xfer(s(), "a.t", "kc")),
			reg(cmt, "b.t", "CMT", 12), add(s("ALPHA"), "b.t", "TXT", "x"), add(s("M1"), "b.t", "TXT", "x"), add(cmt, "b.t", "TXT", "x"),
			regTLD(s("ALPHA"), "u", 2), regTLD(cmt, "u", 2), regTLD(cmt, "u", 2), reg(o1, "a.u", "o1", 8), add(o1, "a.u", "A", "1.1.1.1"), tick(8),
			reg(o2, "a.u", "o2", 8), xfer(o1, "a.u", "o2"), regTLD(o1, "u", 3), regTLD(cmt, "u", 3), add(o1, "a.u", "A", "2.2.2.2"),
			updSOA(o1, "a.u", "m2", 5), updSOA(o1, "u", "m2", 5), updSOA(cmt, "u", "m2", 5)}},
		// names of level 4 and 5 whose ancestors have DIFFERENT owners: only the owner/admin of the directly
		// enclosing name may register (seeded change C11-admin-of-second-level)
		{CN: 3, Src: "trap:deepparent", Steps: []Step{
			reg(o1, "a.t", "o1", 12), reg(s("o1", "o2"), "b.a.t", "o2", 12),
			reg(s("o1"), "c.b.a.t", "o1", 8) /* grandparent owner alone: refused */, reg(s("o1", "o3"), "c.b.a.t", "o3", 8), /* refused */
			reg(s("o2"), "c.b.a.t", "o2", 8) /* parent owner: accepted */,
			reg(s("o1", "o3"), "d.c.b.a.t", "o3", 4) /* refused */, reg(s("o2", "o3"), "d.c.b.a.t", "o3", 4) /* accepted */,
			setAdmin(s("o2", "o3"), "b.a.t", "o3"), xfer(o2, "c.b.a.t", "o1"), tick(5),
			reg(s("o2", "o3"), "d.c.b.a.t", "o3", 4) /* o2 no longer owns c.b.a.t: refused */,
			reg(s("o1", "o2"), "d.c.b.a.t", "o2", 4) /* accepted: o1 owns c.b.a.t now */,
			setAdmin(s("o1", "o3"), "c.b.a.t", "o3"), tick(5), reg(s("o3"), "d.c.b.a.t", "o3", 4) /* admin of the parent: accepted */,
			reg(s("o3", "o2"), "c.a.t", "o2", 4) /* o3 is admin of b.a.t, not of a.t: refused */, reg(s("o1", "o2"), "c.a.t", "o2", 4)}},
		// only the OWNER (with the new admin) appoints or clears an admin - the current admin cannot
		// (seeded change C11-setadmin-by-admin)
		{CN: 7, Src: "trap:adminappoints", Steps: []Step{
			reg(o1, "a.t", "o1", 12), setAdmin(s("o1", "o2"), "a.t", "o2"), setAdmin(s("o2", "o3"), "a.t", "o3") /* admin + new admin: refused */,
			setAdmin(s("o2"), "a.t", "nil") /* admin clears: refused */, setAdmin(s("o2"), "a.t", "o2") /* refused */,
			setAdmin(s("o3"), "a.t", "o3") /* new admin alone: refused */, setAdmin(s("o1"), "a.t", "o3") /* owner alone: refused */,
			via(setAdmin(s("o1"), "a.t", "kc")) /* a contract as admin */, via(setAdmin(s("o3"), "a.t", "o3")) /* contract admin + new: refused */,
			via(setAdmin(s(), "a.t", "nil")) /* refused */, reg(s("o1", "o2"), "b.a.t", "o2", 8), setAdmin(s("o2", "o3"), "b.a.t", "o3"),
			setAdmin(s("o1", "o3"), "b.a.t", "o1") /* parent owner is not the owner: refused */, setAdmin(s("o3", "o1"), "b.a.t", "o1") /* refused */,
			xfer(o2, "b.a.t", "o1"), setAdmin(s("o2", "o3"), "b.a.t", "o3") /* former owner: refused */,
			setAdmin(s("o3"), "b.a.t", "nil") /* former admin: refused */, setAdmin(s("o1"), "a.t", "nil"), setAdmin(s("o1", "o3"), "b.a.t", "o3")}},
		// former owner / former admin / parent owner after transfers
		{CN: 4, Src: "trap:former", Steps: []Step{
			reg(o1, "a.t", "o1", 8), reg(o1, "b.a.t", "o2", 8), reg(s("o1", "o2"), "b.a.t", "o2", 8), setAdmin(o2, "b.a.t", "o3"),
			setAdmin(s("o2", "o3"), "b.a.t", "o3"), add(o3, "b.a.t", "A", "1.1.1.1"), add(o1, "b.a.t", "A", "2.2.2.2"),
			reg(s("o3", "o1"), "c.b.a.t", "o1", 4), xfer(o3, "b.a.t", "o3"), xfer(o2, "b.a.t", "o1"), add(o3, "b.a.t", "A", "2.2.2.2"),
			add(o2, "b.a.t", "A", "2.2.2.2"), renew(o2, "b.a.t", 1), updSOA(o3, "b.a.t", "m2", 3), del(o2, "b.a.t", "A"), setAdmin(o2, "b.a.t", "nil"),
			setAdmin(o1, "b.a.t", "nil"), reg(s("o2"), "c.b.a.t", "o2", 4), tick(17), reg(s("o2"), "c.b.a.t", "o2", 4), reg(s("o1", "o2"), "c.b.a.t", "o2", 4),
			xfer(o1, "c.b.a.t", "o3")}},
		// extension X03, the registration price: setPrice by everybody but the committee; the committee sets 0 and
		// every register / renew FAULTs (a taken name, a free name, a TLD renewal) while registerTLD and the other
		// methods go on; the price is restored and the same calls succeed; out-of-range values (-1, max + 1, far
		// out) next to the bounds 0 and max themselves; a price beyond the GAS of a transaction (max = 10 000 GAS);
		// a price of one fraction; renew burns price * years
		{CN: 3, Src: "trap:price", Steps: []Step{
			reg(o1, "a.t", "o1", 12), setPrice(s("X"), 0), setPrice(s("o1"), 1), setPrice(s("M1"), 0), setPrice(s("ALPHA"), 2*defPrice),
			setPrice(s("HALF"), 0), setPrice(s(), defPrice), via(setPrice(s("o1"), 0)), reg(o2, "b.t", "o2", 12),
			setPrice(cmt, 0), reg(o3, "a.u", "o3", 8) /* TLD missing: FAULT anyway */, reg(o1, "a.t", "o1", 12) /* taken: FAULT, not false */,
			reg(o2, "c.a.t", "o2", 8) /* not authorised */, reg(s("o1", "o2"), "c.a.t", "o2", 8) /* authorised: FAULT */,
			reg(o3, "b.a.t", "o3", 8), renew(o1, "a.t", 1), renew(cmt, "t", 1), regTLD(cmt, "u", 20) /* not priced */,
			add(o1, "a.t", "TXT", "x"), xfer(o2, "b.t", "o3"), setAdmin(s("o1", "o2"), "a.t", "o2"), updSOA(o1, "a.t", "m2", 3),
			setPrice(s("X"), defPrice), reg(o3, "a.u", "o3", 8) /* still 0 */, setPrice(cmt, defPrice),
			reg(o3, "a.u", "o3", 8), reg(o1, "a.t", "o1", 12) /* taken: false */, reg(s("o1", "o2"), "c.a.t", "o2", 8), renew(o1, "a.t", 1),
			renew(cmt, "t", 1), setPrice(cmt, -1), setPrice(cmt, maxPrice+1), setPrice(cmt, -defPrice), setPrice(cmt, 4*maxPrice),
			setPrice(s("X"), -1), setPrice(s("X"), maxPrice+1), reg(o3, "b.a.t", "o1", 8) /* refused: o1 missing */,
			setPrice(cmt, maxPrice) /* the bound itself */, reg(s("o1", "o3"), "b.a.t", "o3", 8) /* more than a transaction can burn */,
			renew(o3, "a.u", 1), regTLD(cmt, "u", 20) /* alive */, setPrice(cmt, 0) /* the other bound */, setPrice(cmt, 0),
			via(setPrice(cmt, 1)) /* through a contract, with the committee's witness */, reg(s("o1", "o3"), "b.a.t", "o3", 8),
			renew(o3, "a.u", 10), setPrice(cmt, 400*priceB) /* renew: 400 GAS a year */, renew(o3, "b.a.t", 1), tick(2), renew(o3, "b.a.t", 9),
			renew(o3, "a.u", 1), setPrice(s("o1", "CMT"), defPrice), tick(40), reg(o2, "b.t", "o2", 4) /* expired long ago */}},
		// the same with a one-key committee (committee = Alphabet account) and without ever restoring the price
		{CN: 1, Src: "trap:pricezero", Steps: []Step{
			setPrice(s("ALPHA"), 1), reg(o1, "a.t", "o1", 2), setPrice(s("M1"), 0) /* a single-key account, not the 1-of-1 committee */,
			reg(o3, "a.t", "o3", 2) /* taken: false */, setPrice(s("ALPHA"), 0), reg(o2, "b.t", "o2", 8), setPrice(s("X"), defPrice), renew(o1, "a.t", 1), tick(8), reg(o2, "a.t", "o2", 2) /* expired, still refused */,
			renew(cmt, "t", 10), regTLD(cmt, "u", 8), reg(o1, "a.u", "o1", 2), add(o1, "a.t", "TXT", "x"), setPrice(cmt, maxPrice+1),
			setPrice(cmt, -1), reg(s("o1", "CMT"), "a.t", "CMT", 2)}},
	}
}

// ---- seeded random scenarios: same vocabulary, guided by a rough model of ownership so that a
// good share of the calls is authorised ----
func randScenarios(seed int64, n int) []*Scenario {
	r := rand.New(rand.NewSource(seed*104729 + 7))
	var out []*Scenario
	for i := 0; i < n; i++ {
		// the price steps (extension X03) are drawn from a generator of their own, so that the scenarios
		// without price steps are the ones the walker produced before the extension
		rp := rand.New(rand.NewSource(seed*7919 + 1000003*int64(i) + 13))
		out = append(out, randScenario(r, rp))
	}
	return out
}

// ---- a small model of ownership, only to guide the generator (never decisive: the monitor does the
// exact bookkeeping on what the contract really did) ----
type nst struct {
	owner, admin   string
	fOwner, fAdmin string // former owner / former admin
	exp            int64
}

type gmodel struct {
	now   int64
	reg   map[string]*nst
	recs  map[string][]string // token|name|type -> data
	price int64               // registration price (price units)
}

func burnOK(g int64) bool { return g > 0 && g <= gasCap }

func parOf(n string) string {
	for i := 0; i < len(n); i++ {
		if n[i] == '.' {
			return n[i+1:]
		}
	}
	return ""
}

func levelOf(n string) int { return strings.Count(n, ".") + 1 }

func (m *gmodel) alive(n string) bool { x := m.reg[n]; return x != nil && m.now < x.exp }
func (m *gmodel) ancOK(n string) bool {
	for p := parOf(n); p != ""; p = parOf(p) {
		if !m.alive(p) {
			return false
		}
	}
	return true
}
func (m *gmodel) token(n string) string {
	for x := n; parOf(x) != ""; x = parOf(x) {
		if m.alive(x) {
			return x
		}
	}
	return n
}
func adminOK(x *nst, W map[string]bool) bool {
	if x.owner == "nil" {
		return W["CMT"]
	}
	return W[x.owner] || (x.admin != "nil" && W[x.admin])
}
func (m *gmodel) conflict(n string) bool {
	pre := parOf(n) + "|"
	for k, l := range m.recs {
		if len(l) > 0 && strings.HasPrefix(k, pre) && strings.HasSuffix(strings.Split(k, "|")[1], "."+n) {
			return true
		}
	}
	return false
}

// apply predicts the effect of a step (the Spec's rules) and advances the clock.
func (m *gmodel) apply(st Step) {
	if st.Act == "tick" {
		m.now += st.X
		return
	}
	defer func() { m.now++ }()
	W := map[string]bool{}
	for _, x := range st.S {
		W[x] = true
		if x == "ALPHA" { // coincides with the committee on some chains; good enough for guidance
			continue
		}
	}
	if st.Via {
		W["kc"] = true
	}
	n := st.N
	x := m.reg[n]
	switch st.Act {
	case "registerTLD":
		if W["CMT"] && levelOf(n) == 1 && !m.alive(n) {
			m.reg[n] = &nst{"nil", "nil", "nil", "nil", m.now + st.X}
		}
	case "setPrice":
		if W["CMT"] && st.X >= 0 && st.X <= maxPrice {
			m.price = st.X
		}
	case "register":
		if levelOf(n) < 2 || !m.ancOK(n) || (levelOf(n) > 2 && !adminOK(m.reg[parOf(n)], W)) || m.conflict(n) || !W[st.O] || m.alive(n) ||
			!burnOK(m.price) {
			return
		}
		y := &nst{st.O, "nil", "nil", "nil", m.now + st.X}
		if x != nil {
			y.fOwner, y.fAdmin = x.owner, x.admin
			if x.admin == "nil" {
				y.fAdmin = x.fAdmin
			}
		}
		m.reg[n] = y
	case "transfer":
		if x != nil && m.alive(n) && W[x.owner] && x.owner != st.O {
			x.fOwner = x.owner
			if x.admin != "nil" {
				x.fAdmin = x.admin
			}
			x.owner, x.admin = st.O, "nil"
		}
	case "renew":
		if x != nil && st.X >= 1 && st.X <= 10 && burnOK(m.price*st.X) && m.alive(n) && m.ancOK(n) && adminOK(x, W) &&
			(levelOf(n) == 1 || x.exp+st.X*year <= m.now+10*year) {
			x.exp += st.X * year
		}
	case "setAdmin":
		if x != nil && levelOf(n) > 1 && (st.O == "nil" || W[st.O]) && m.alive(n) && m.ancOK(n) && W[x.owner] {
			if x.admin != "nil" && x.admin != st.O {
				x.fAdmin = x.admin
			}
			x.admin = st.O
		}
	case "addRecord", "setRecord", "deleteRecords":
		tok := m.token(n)
		tx := m.reg[tok]
		if tx == nil || levelOf(tok) < 2 || !m.alive(tok) || !m.ancOK(tok) || !adminOK(tx, W) || st.Ty == "SOA" {
			return
		}
		k := tok + "|" + n + "|" + st.Ty
		l := m.recs[k]
		okTy := st.Ty == "A" || st.Ty == "CNAME" || st.Ty == "TXT" || st.Ty == "AAAA"
		switch st.Act {
		case "addRecord":
			dup := false
			for _, d := range l {
				dup = dup || d == st.D
			}
			if okTy && !dup && len(l) < 16 && !(st.Ty == "CNAME" && len(l) > 0) {
				m.recs[k] = append(l, st.D)
			}
		case "setRecord":
			dup := false
			for i, d := range l {
				dup = dup || (int64(i) != st.X && d == st.D)
			}
			if okTy && st.X >= 0 && int(st.X) < len(l) && !dup {
				l[st.X] = st.D
			}
		default:
			delete(m.recs, k)
		}
	}
}

// roles returns the accounts that stand in some relation of the statement to name n and the argument
// account o: owner, admin, former owner, former admin, owner/admin of the directly enclosing name,
// owner/admin of the 2nd-level ancestor, of the record token, of a child, the new owner/admin, a stranger,
// the committee (and its look-alikes).
func (m *gmodel) roles(n, o string) map[string]string {
	R := map[string]string{"stranger": "X", "committee": "CMT", "member": "M1", "alphabet": "ALPHA", "half": "HALF", "new": o}
	put := func(role string, x *nst) {
		if x != nil {
			R[role+"Owner"], R[role+"Admin"] = x.owner, x.admin
			if x.owner == "nil" {
				R[role+"Owner"] = "CMT"
			}
		}
	}
	if x := m.reg[n]; x != nil {
		put("", x)
		R["formerOwner"], R["formerAdmin"] = x.fOwner, x.fAdmin
	}
	put("parent", m.reg[parOf(n)])
	l2 := n
	for levelOf(l2) > 2 {
		l2 = parOf(l2)
	}
	if l2 != n && l2 != parOf(n) {
		put("second", m.reg[l2])
	}
	if p := parOf(n); p != "" && parOf(p) != "" && parOf(p) != l2 {
		put("grand", m.reg[parOf(p)])
	}
	if t := m.token(n); t != n {
		put("token", m.reg[t])
	}
	// deterministic: the same seed must give the same scenarios (replay, differential replay of C15)
	var kids []string
	for c := range m.reg {
		if parOf(c) == n {
			kids = append(kids, c)
		}
	}
	sort.Strings(kids)
	for _, c := range kids {
		put("child", m.reg[c])
	}
	for k, v := range R {
		if v == "" || v == "nil" {
			delete(R, k)
		}
	}
	return R
}

// authSets returns the minimal signer sets that authorise the step according to the statement.
func (m *gmodel) authSets(st Step) [][]string {
	oa := func(x *nst, more ...string) [][]string {
		if x == nil {
			return nil
		}
		if x.owner == "nil" {
			return [][]string{append([]string{"CMT"}, more...)}
		}
		out := [][]string{append([]string{x.owner}, more...)}
		if x.admin != "nil" {
			out = append(out, append([]string{x.admin}, more...))
		}
		return out
	}
	switch st.Act {
	case "registerTLD", "setPrice":
		return [][]string{{"CMT"}}
	case "register":
		if levelOf(st.N) == 2 {
			return [][]string{{st.O}}
		}
		return oa(m.reg[parOf(st.N)], st.O)
	case "transfer":
		if x := m.reg[st.N]; x != nil {
			return [][]string{{x.owner}}
		}
	case "setAdmin":
		if x := m.reg[st.N]; x != nil {
			if st.O == "nil" {
				return [][]string{{x.owner}}
			}
			return [][]string{{x.owner, st.O}}
		}
	case "renew", "updateSOA":
		return oa(m.reg[st.N])
	case "addRecord", "setRecord", "deleteRecords":
		return oa(m.reg[m.token(st.N)])
	}
	return nil
}

// sign draws the signer set of a step from the role set of the statement: exactly authorised, almost
// authorised (one required witness missing or replaced by a relative that must not suffice), or one or
// two arbitrary roles.
func (m *gmodel) sign(r *rand.Rand, st Step) Step {
	R := m.roles(st.N, st.O)
	var rl []string
	for k := range R {
		rl = append(rl, k)
	}
	sort.Strings(rl)
	pickRole := func() string { return R[rl[r.Intn(len(rl))]] }
	auth := m.authSets(st)
	var S []string
	switch k := r.Intn(100); {
	case k < 36 && len(auth) > 0:
		S = append(S, auth[r.Intn(len(auth))]...)
	case k < 72 && len(auth) > 0:
		S = append(S, auth[r.Intn(len(auth))]...)
		j := r.Intn(len(S))
		if r.Intn(3) == 0 { // one required witness missing
			S = append(S[:j], S[j+1:]...)
		} else { // the wrong relative instead of a required witness
			repl := S[j]
			for try := 0; try < 8 && repl == S[j]; try++ {
				repl = pickRole()
			}
			S[j] = repl
		}
		if r.Intn(4) == 0 {
			S = append(S, pickRole())
		}
	case k < 86:
		S = []string{pickRole()}
	case k < 97:
		S = []string{pickRole(), pickRole()}
	}
	seen := map[string]bool{}
	st.S = []string{}
	st.Via = false
	for _, a := range S {
		switch {
		case a == "kc":
			st.Via = true
		case a == "" || a == "nil" || seen[a]:
		default:
			seen[a] = true
			st.S = append(st.S, a)
		}
	}
	return st
}

// randScenario: in two scenarios out of three the walk starts from a tower a.t / b.a.t / c.b.a.t /
// d.c.b.a.t (or a shorter one) in which every level has a different owner and a different admin; then
// every step picks a method and a name and draws its signers with sign.
//
// Extension X03: one scenario out of three contains setPrice steps, drawn with rp: by the committee to a
// usable price, to 0 or to a price no transaction can burn (followed by one or two calls that would succeed
// at a usable price, and mostly by the restoration of a usable price one to three steps later, so that the
// rest of the walk stays productive), out of range, and by everybody else.
func randScenario(r, rp *rand.Rand) *Scenario {
	cns := []int{1, 3, 4, 7}
	sc := &Scenario{CN: cns[r.Intn(len(cns))], Src: "rand"}
	m := &gmodel{now: 1, reg: map[string]*nst{"t": {"nil", "nil", "nil", "nil", 10 * year}}, recs: map[string][]string{}, price: defPrice}
	emit := func(st Step) {
		sc.Steps = append(sc.Steps, st)
		m.apply(st)
	}
	pick := func(xs []string) string { return xs[r.Intn(len(xs))] }
	sigOf := func(accts ...string) ([]string, bool) {
		S, via := []string{}, false
		seen := map[string]bool{}
		for _, a := range accts {
			if a == "kc" {
				via = true
			} else if a != "nil" && !seen[a] {
				seen[a] = true
				S = append(S, a)
			}
		}
		return S, via
	}
	// one scenario out of three concentrates on record lists (see recordStep below)
	recMode := r.Intn(3) == 0
	if recMode || r.Intn(3) > 0 {
		accts := []string{"o1", "o2", "o3", pick([]string{"kc", "CMT"})}
		r.Shuffle(len(accts), func(i, j int) { accts[i], accts[j] = accts[j], accts[i] })
		tower := []string{"a.t", "b.a.t", "c.b.a.t", "d.c.b.a.t"}[:2+r.Intn(3)]
		for i, n := range tower {
			par := "nil"
			if i > 0 {
				par = accts[i-1]
			}
			x := int64(8 + r.Intn(5))
			if recMode {
				x = 30 // the lists must outlive the scenario
			}
			st := reg(nil, n, accts[i], x)
			st.S, st.Via = sigOf(par, accts[i])
			emit(st)
		}
		rot := 1 + r.Intn(len(accts)-1) // admin of level i = owner of another level
		for i, n := range tower {
			if r.Intn(5) == 0 {
				continue
			}
			a := accts[(i+rot)%len(accts)]
			if a == "CMT" && r.Intn(2) == 0 {
				a = "o" + string(rune('1'+r.Intn(3)))
			}
			if a == accts[i] {
				continue
			}
			st := setAdmin(nil, n, a)
			st.S, st.Via = sigOf(accts[i], a)
			emit(st)
		}
	}
	data := map[string][]string{"A": {"1.1.1.1", "2.2.2.2", "3.3.3.3", "8.8.4.4"}, "TXT": {"x", "y", "z", "some text"},
		"AAAA": {"2001:470::1", "2a00::2"}, "CNAME": ntNames}
	types := []string{"A", "A", "TXT", "TXT", "CNAME", "CNAME", "AAAA", "SOA", "BAD"}
	accounts := []string{"o1", "o1", "o2", "o2", "o3", "o3", "kc", "CMT"}
	// names that are registered or could be registered now, with a bias to the deep ones
	name := func() string {
		var c []string
		for _, n := range ntNames {
			if m.reg[n] != nil || m.alive(parOf(n)) {
				c = append(c, n)
				if levelOf(n) > 2 {
					c = append(c, n)
				}
			}
		}
		if len(c) == 0 || r.Intn(6) == 0 {
			return pick(ntNames)
		}
		return pick(c)
	}
	registered := func() string {
		var c []string
		for _, n := range ntNames {
			if m.alive(n) {
				c = append(c, n)
			}
		}
		if len(c) == 0 || r.Intn(8) == 0 {
			return pick(ntNames)
		}
		return pick(c)
	}
	// ---- record lists: values are drawn relative to what the list holds, in every direction ----
	val := func(ty string, k int) string {
		switch ty {
		case "A":
			return "9.9.9." + strconv.Itoa(k+1)
		case "AAAA":
			return "2001:470::" + strconv.FormatInt(int64(k+1), 16)
		case "CNAME":
			return ntNames[k%len(ntNames)]
		}
		return "v" + strconv.Itoa(k)
	}
	fresh := func(ty string, l []string) string {
		for k := 0; ; k++ {
			v, used := val(ty, k), false
			for _, d := range l {
				used = used || d == v
			}
			if !used {
				return v
			}
		}
	}
	// signers of a record step: mostly an authorised set, otherwise drawn by role
	auth := func(st Step) Step {
		if a := m.authSets(st); len(a) > 0 && r.Intn(8) > 0 {
			st.S, st.Via = sigOf(a[r.Intn(len(a))]...)
			return st
		}
		return m.sign(r, st)
	}
	// the lists that are addressable now: token|name|type with token = current token of name
	lists := func(min int) [][3]string {
		var ks []string
		for k, l := range m.recs {
			if f := strings.Split(k, "|"); len(l) >= min && m.alive(f[0]) && m.token(f[1]) == f[0] {
				ks = append(ks, k)
			}
		}
		sort.Strings(ks)
		out := make([][3]string, len(ks))
		for i, k := range ks {
			f := strings.Split(k, "|")
			out[i] = [3]string{f[0], f[1], f[2]}
		}
		return out
	}
	listOf := func(k [3]string) []string { return m.recs[k[0]+"|"+k[1]+"|"+k[2]] }
	// a registered name or a sub-name one or two levels below a live token
	recName := func() string {
		var c []string
		for _, n := range ntNames {
			if t := m.token(n); m.alive(t) && m.ancOK(t) {
				c = append(c, n)
			}
		}
		if len(c) == 0 {
			return pick(ntNames)
		}
		return pick(c)
	}
	burst := func() { // grow one list to 2..17 entries
		n, ty := recName(), pick([]string{"TXT", "TXT", "A", "AAAA"})
		want := []int{2, 2, 3, 3, 4, 5, 8, 15, 16, 17}[r.Intn(10)]
		for i := 0; i < want; i++ {
			emit(auth(add(nil, n, ty, fresh(ty, m.recs[m.token(n)+"|"+n+"|"+ty]))))
		}
	}
	recordStep := func() {
		ls := lists(1)
		if len(ls) == 0 {
			ty := pick([]string{"TXT", "A", "AAAA", "CNAME"})
			emit(auth(add(nil, recName(), ty, val(ty, r.Intn(3)))))
			return
		}
		k := ls[r.Intn(len(ls))]
		if big := lists(2); len(big) > 0 && r.Intn(4) > 0 {
			k = big[r.Intn(len(big))]
		}
		n, ty, l := k[1], k[2], listOf(k)
		other := func(i int) string { // the value held at another index: lower or higher, both directions
			if len(l) < 2 {
				return fresh(ty, l)
			}
			j := r.Intn(len(l) - 1)
			if j >= i {
				j++
			}
			return l[j]
		}
		idx := func() int { // bias to the ends of the list
			switch r.Intn(4) {
			case 0:
				return 0
			case 1:
				return len(l) - 1
			}
			return r.Intn(len(l))
		}
		switch c := r.Intn(20); {
		case c < 8: // replace by the value of another index (must be refused)
			i := idx()
			emit(auth(set(nil, n, ty, int64(i), other(i))))
		case c < 10: // replace a record by its own value (accepted)
			i := idx()
			emit(auth(set(nil, n, ty, int64(i), l[i])))
		case c < 13: // replace by a new value
			emit(auth(set(nil, n, ty, int64(idx()), fresh(ty, l))))
		case c < 14: // an index behind the end / behind the limit
			emit(auth(set(nil, n, ty, int64(len(l)+r.Intn(2)*(16-len(l))), fresh(ty, l))))
		case c < 16: // add a value present at any index (refused) ...
			emit(auth(add(nil, n, ty, l[r.Intn(len(l))])))
		case c < 17: // ... or a new one (refused when the list is full or a CNAME exists)
			emit(auth(add(nil, n, ty, fresh(ty, l))))
		case c < 19: // delete the type, address the emptied list, re-add old values from id 0 on
			old := append([]string{}, l...)
			emit(auth(del(nil, n, ty)))
			emit(auth(set(nil, n, ty, 0, old[0])))
			for i := len(old) - 1; i >= 0 && i >= len(old)-1-r.Intn(3); i-- {
				emit(auth(add(nil, n, ty, old[i])))
			}
			if len(old) > 1 {
				emit(auth(set(nil, n, ty, 0, old[len(old)-2]))) // held at a higher index now
			}
		default: // the single-CNAME rule through add and set
			emit(auth(add(nil, n, "CNAME", pick(ntNames))))
			emit(auth(add(nil, n, "CNAME", pick(ntNames))))
			emit(auth(set(nil, n, "CNAME", int64(r.Intn(2)), pick(ntNames))))
		}
	}
	if recMode {
		burst()
		if r.Intn(2) == 0 {
			burst()
		}
	}
	mails := []string{"m1", "m2", "m1", "m2", "ops@nspcc.io", "", "a b", strings.Repeat("m", 255)}
	mail := func(st Step) Step { st.M = pick(mails); return st }
	expire := func() int64 { // mostly 1..8 units, sometimes 0, negative, or centuries
		switch r.Intn(16) {
		case 0:
			return 0
		case 1:
			return -1
		case 2:
			return 400
		}
		return int64(1 + r.Intn(8))
	}
	// ---- price steps ----
	priceMode := rp.Intn(3) == 0
	restoreIn := -1 // steps until a usable price is restored (-1: nothing pending)
	usable := []int64{defPrice, defPrice, 1, 2, 2 * defPrice, 100 * priceB, 4000 * priceB}
	others := [][]string{{"X"}, {"M1"}, {"ALPHA"}, {"HALF"}, {"o1"}, {"o2", "o3"}, {}, {"X", "M1"}}
	byCmt := func(p int64) Step {
		st := setPrice(s("CMT"), p)
		switch rp.Intn(8) {
		case 0:
			st.S = s("CMT", "o1")
		case 1:
			st.Via = true
		}
		return st
	}
	probe := func() { // a call that succeeds if (and only if) the price is usable
		var free, held []string
		for _, n := range ntNames {
			if levelOf(n) == 2 && m.alive(parOf(n)) && !m.alive(n) && !m.conflict(n) {
				free = append(free, n)
			}
			if m.alive(n) && m.ancOK(n) && m.reg[n].owner != "kc" {
				held = append(held, n)
			}
		}
		switch k := rp.Intn(4); {
		case k < 2 && len(free) > 0:
			o := []string{"o1", "o2", "o3", "CMT"}[rp.Intn(4)]
			emit(reg(s(o), free[rp.Intn(len(free))], o, int64(2+rp.Intn(6))))
		case k < 3 && len(held) > 0:
			n := held[rp.Intn(len(held))]
			emit(reg(s(m.reg[n].owner), n, m.reg[n].owner, 4)) // a taken name: false, or FAULT when nothing can be burnt
		case len(held) > 0:
			n := held[rp.Intn(len(held))]
			emit(renew(s(m.reg[n].owner), n, int64(1+rp.Intn(2))))
		default:
			emit(renew(s("CMT"), "t", 1))
		}
	}
	priceStep := func() {
		switch k := rp.Intn(20); {
		case k < 7: // nothing can be registered: 0 mostly, or more than a transaction can burn
			p := []int64{0, 0, 0, maxPrice, gasCap + priceB}[rp.Intn(5)]
			emit(byCmt(p))
			probe()
			if rp.Intn(2) == 0 {
				probe()
			}
			if rp.Intn(8) > 0 {
				restoreIn = rp.Intn(3)
			}
		case k < 12: // not the committee
			st := setPrice(others[rp.Intn(len(others))], []int64{0, 0, 1, defPrice, maxPrice, -1, maxPrice + 1}[rp.Intn(7)])
			st.Via = rp.Intn(6) == 0
			emit(st)
		case k < 16: // out of range
			emit(byCmt([]int64{-1, -1, maxPrice + 1, maxPrice + 1, -priceB, -defPrice, 4 * maxPrice, maxPrice + priceB}[rp.Intn(8)]))
		default:
			emit(byCmt(usable[rp.Intn(len(usable))]))
			if rp.Intn(3) == 0 {
				probe()
			}
		}
	}
	nsteps := 14 + r.Intn(26)
	for i := 0; i < nsteps; i++ {
		if priceMode {
			if restoreIn == 0 {
				emit(byCmt(usable[rp.Intn(len(usable))]))
				if rp.Intn(2) == 0 {
					probe()
				}
			}
			if restoreIn >= 0 {
				restoreIn--
			} else if rp.Intn(7) == 0 {
				priceStep()
			}
		}
		if (recMode && r.Intn(3) > 0) || (!recMode && r.Intn(8) == 0) {
			recordStep()
			continue
		}
		switch k := r.Intn(32); {
		case k < 2:
			emit(tick(int64(1 + r.Intn(9))))
		case k < 3:
			emit(m.sign(r, mail(regTLD(nil, pick([]string{"u", "u", "t"}), int64(1+r.Intn(12))))))
		case k < 10:
			n, x := name(), expire()
			if x <= 0 && levelOf(n) > 2 {
				x = 1 // see report: a name of level >= 3 that is expired at once leaves its SOA record under the parent
			}
			emit(m.sign(r, mail(reg(nil, n, pick(accounts), x))))
		case k < 14:
			emit(m.sign(r, xfer(nil, registered(), pick(accounts))))
		case k < 16:
			y := int64(1 + r.Intn(10))
			if r.Intn(8) == 0 {
				y = int64(r.Intn(13))
			}
			n := registered()
			if r.Intn(6) == 0 {
				n = pick([]string{"t", "u"})
			}
			emit(m.sign(r, renew(nil, n, y)))
		case k < 21:
			emit(m.sign(r, setAdmin(nil, registered(), pick([]string{"o1", "o2", "o3", "kc", "nil", "nil"}))))
		case k < 23:
			n := registered()
			if r.Intn(8) == 0 {
				n = pick([]string{"t", "u"})
			}
			emit(m.sign(r, mail(updSOA(nil, n, "m1", expire()))))
		case k < 27:
			ty := pick(types)
			d := "x"
			if l, ok := data[ty]; ok {
				d = pick(l)
			}
			emit(m.sign(r, add(nil, name(), ty, d)))
		case k < 30:
			ty := pick(types)
			d := "x"
			if l, ok := data[ty]; ok {
				d = pick(l)
			}
			id := int64(r.Intn(3))
			if r.Intn(8) == 0 {
				id = []int64{-1, 15, 16, 255, 256}[r.Intn(5)]
			}
			emit(m.sign(r, set(nil, name(), ty, id, d)))
		default:
			emit(m.sign(r, del(nil, name(), pick(types))))
		}
	}
	return sc
}
