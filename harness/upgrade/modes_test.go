package upgrade

import (
	"bytes"
	"crypto/sha256"
	"encoding/hex"
	"encoding/json"
	"os"
	"path/filepath"
	"sort"
	"strconv"
	"strings"
	"testing"

	"github.com/nspcc-dev/neo-go/pkg/encoding/bigint"
	"github.com/nspcc-dev/neo-go/pkg/neotest"
	"github.com/nspcc-dev/neo-go/pkg/vm/stackitem"
	"github.com/nspcc-dev/neo-go/pkg/vm/vmstate"
	"github.com/nspcc-dev/neofs-contract/tests/dump"
	"github.com/nspcc-dev/neofs-contract/tests/migration"
	"github.com/stretchr/testify/require"

	"verif/harness/chain"
)

// dumpWorld wraps the repository's own migration test shell (tests/migration): the recorded contract states and
// storages of a public network are loaded into a one-key chain, the contract under test is updated to the tree build.
type dumpWorld struct {
	t        *testing.T
	c        *migration.Contract
	kind     string
	ids      map[string][]string // entities found in the recorded storage (hex)
	stranger neotest.Signer
	nefSum   string
	upd      int
	updArgs  []any
	old      map[string]bool // methods of the recorded (pre-upgrade) contract
	curVer   int64           // version() of the contract as last observed
}

func dumpDir(kind string) string {
	if kind == "nns" {
		return filepath.Join(chain.RepoRoot(), "contracts", "nns", "testdata")
	}
	return filepath.Join(chain.RepoRoot(), "testdata")
}

func newDumpWorld(t *testing.T, sc *Scenario) *dumpWorld {
	d := &dumpWorld{t: t, kind: sc.Kind, ids: map[string][]string{}}
	// tests/migration compiles the NNS contract from "../nns" relative to the working directory
	require.NoError(t, os.Chdir(filepath.Join(chain.RepoRoot(), "contracts", sc.Kind)))
	name := sc.Kind
	if name == "alphabet" {
		name = "alphabet0"
	}
	add := func(k, v string) {
		for _, x := range d.ids[k] {
			if x == v {
				return
			}
		}
		d.ids[k] = append(d.ids[k], v)
	}
	found := false
	err := dump.IterateDumps(dumpDir(sc.Kind), func(id dump.ID, r *dump.Reader) {
		if id.Label != sc.Dump || found {
			return
		}
		found = true
		d.c = migration.NewContract(t, r, name, migration.ContractOptions{
			SourceCodeDir: filepath.Join(chain.RepoRoot(), "contracts", sc.Kind),
			StorageDumpHandler: func(k, v []byte) {
				switch sc.Kind {
				case "balance":
					if len(k) == 20 {
						add("acc", hex.EncodeToString(k))
					}
				case "container":
					if len(k) == 32 {
						add("cid", hex.EncodeToString(k))
					}
					if len(k) == 57 {
						add("owner", hex.EncodeToString(k[:25]))
					}
					if len(k) >= 45 && string(k[:3]) == "cnr" {
						e := new(stackBig).fromLE(k[3 : len(k)-42])
						add("epoch", e)
					}
				case "neofsid":
					if len(k) == 59 && k[0] == 'o' {
						add("owner", hex.EncodeToString(k[1:26]))
					}
				case "netmap":
					if bytes.HasPrefix(k, []byte("config")) {
						add("cfg", string(k[6:]))
					}
				case "reputation":
					if len(k) > 34 && k[0] == 'c' {
						add("epoch", new(stackBig).fromLE(k[1:len(k)-33]))
					}
				case "nns":
					if k[0] == 0x21 {
						if it, err := stackitem.Deserialize(v); err == nil {
							f := it.Value().([]stackitem.Item)
							n, _ := f[1].TryBytes()
							add("name", string(n))
							if o, err := f[0].TryBytes(); err == nil && len(o) == 20 {
								add("acc", hex.EncodeToString(o))
							}
						}
					}
				}
			},
		})
	})
	require.NoError(t, err)
	require.True(t, found, "dump %q not found for %s", sc.Dump, sc.Kind)
	for k := range d.ids {
		sort.Strings(d.ids[k])
		if len(d.ids[k]) > 40 {
			d.ids[k] = d.ids[k][:40]
		}
	}
	d.stranger = d.c.NewAccount(t)
	cs := d.c.Chain.GetContractState(d.c.Hash)
	d.old = map[string]bool{}
	for _, m := range cs.Manifest.ABI.Methods {
		d.old[m.Name] = true
	}
	if sc.Kind == "alphabet" {
		d.updArgs = []any{false, []byte{}, hash20("hp"), "", 0, 0}
	}
	return d
}

type stackBig struct{}

func (*stackBig) fromLE(b []byte) string {
	return numStr(bigint.FromBytes(b))
}

func (d *dumpWorld) height() uint32 { return d.c.Chain.BlockHeight() }

func (d *dumpWorld) call(method string, args ...any) (stackitem.Item, bool) {
	st, err := d.c.TestInvoke(d.t, method, args...)
	if err != nil || st.Len() != 1 {
		return nil, false
	}
	it := st.Pop().Item()
	return expandIter(it), true
}

func (d *dumpWorld) exec(w *world, st Step) chain.Rec {
	rec := chain.Rec{"act": st.Act, "S": st.S, "v": st.V, "res": "HALT", "fault": ""}
	if st.S == nil {
		rec["S"] = []string{}
	}
	switch st.Act {
	case "wait":
		for i := 0; i < 21; i++ {
			d.c.AddNewBlock(d.t)
		}
	case "prep":
		// an operation of the RECORDED (old) contract that changes a stored parameter the migration depends on
		rec["op"] = st.Op
		var args []any
		method := ""
		switch st.Op {
		case "snapcount":
			method, args = "updateSnapshotCount", []any{st.V}
		case "newepoch":
			e := int64(0)
			if it, ok := d.call("epoch"); ok {
				n, _ := it.TryInteger()
				e = n.Int64()
			}
			method, args = "newEpoch", []any{e + 1}
		default:
			d.t.Fatalf("unknown prep op %q", st.Op)
		}
		tx := d.c.WithSigners(d.c.Committee).PrepareInvoke(d.t, method, args...)
		d.c.AddNewBlock(d.t, tx)
		aer := d.c.GetTxExecResult(d.t, tx.Hash())
		if aer.VMState != vmstate.Halt {
			rec["res"] = "FAULT"
			rec["fault"] = aer.FaultException
		}
	case "update":
		if v, ok := d.call("version"); ok {
			n, _ := v.TryInteger()
			rec["v"] = n.Int64()
		}
		var sg []neotest.Signer
		names := []string{}
		for _, s := range st.S {
			switch s {
			case "CMT", "ALPHA": // one-key chain: both are the same account
				sg = append(sg, d.c.Committee)
				names = append(names, "ALPHA", "CMT")
			case "X":
				sg = append(sg, d.stranger)
				names = append(names, "X")
			}
		}
		if len(sg) == 0 {
			sg = []neotest.Signer{d.stranger}
			names = []string{"X"}
		}
		sort.Strings(names)
		rec["S"] = names
		ne, mf := targetOf(d.t, d.c, d.kind)
		inv := d.c.WithSigners(sg...)
		tx := inv.PrepareInvoke(d.t, "update", ne, mf, d.updArgs)
		d.c.AddNewBlock(d.t, tx)
		aer := d.c.GetTxExecResult(d.t, tx.Hash())
		if aer.VMState != vmstate.Halt {
			rec["res"] = "FAULT"
			rec["fault"] = aer.FaultException
		}
	}
	return rec
}

var targetCache = map[string][2][]byte{}

func targetOf(t *testing.T, c *migration.Contract, kind string) ([]byte, []byte) {
	if x, ok := targetCache[kind]; ok {
		return x[0], x[1]
	}
	dir := filepath.Join(chain.RepoRoot(), "contracts", kind)
	ctr := neotest.CompileFile(t, c.CommitteeHash, dir, filepath.Join(dir, "config.yml"))
	ne, err := ctr.NEF.Bytes()
	require.NoError(t, err)
	mf, err := json.Marshal(ctr.Manifest)
	require.NoError(t, err)
	targetCache[kind] = [2][]byte{ne, mf}
	return ne, mf
}

func (d *dumpWorld) raw() (map[string][]byte, any, any, any) {
	raw := map[string][]byte{}
	hh := sha256.New()
	d.c.SeekStorage(nil, func(k, v []byte) bool {
		raw[hex.EncodeToString(k)] = bytes.Clone(v)
		hh.Write([]byte(strconv.Itoa(len(k)) + ":" + strconv.Itoa(len(v)) + ":"))
		hh.Write(k)
		hh.Write(v)
		return true
	})
	cs := d.c.Chain.GetContractState(d.c.Hash)
	return raw, strconv.FormatUint(uint64(cs.NEF.Checksum), 10), int(cs.UpdateCounter), hex.EncodeToString(hh.Sum(nil))
}

// nodeStr: key and state of a node structure of either layout, keys as hex
func (d *dumpWorld) nodeStr(it stackitem.Item) string {
	var leaves []stackitem.Item
	var walk func(stackitem.Item)
	walk = func(x stackitem.Item) {
		if a, ok := x.Value().([]stackitem.Item); ok {
			for _, y := range a {
				walk(y)
			}
			return
		}
		leaves = append(leaves, x)
	}
	walk(it)
	if len(leaves) == 0 {
		return "x"
	}
	blob, _ := leaves[0].TryBytes()
	st := "1" // the legacy structure has no state: implicitly Online
	if len(leaves) > 1 {
		if n, err := leaves[1].TryInteger(); err == nil {
			st = n.String()
		}
	}
	// an answer of a contract that has the two-field layout (>= 0.16) must be well-formed
	if d.curVer >= 16000 && !wellFormedNode(it) {
		st = "?"
	}
	return sha256sum(blob) + ":" + st
}

func expandIter(it stackitem.Item) stackitem.Item {
	if it.Type() != stackitem.InteropT {
		return it
	}
	type iter interface {
		Next() bool
		Value() stackitem.Item
	}
	i, ok := it.Value().(iter)
	if !ok {
		return it
	}
	var a []stackitem.Item
	for i.Next() {
		a = append(a, i.Value())
	}
	return stackitem.NewArray(a)
}

var _ = strings.TrimSpace

// traps: the hand-written part of the test matrix - the real gate on every contract, the version bounds on the
// real contracts, the recorded dumps, and witnesses of rare branches and of the defect found
func traps(tier string, seed int64) []*Scenario {
	var out []*Scenario
	up := func(v int64, S ...string) Step {
		if S == nil {
			S = []string{}
		}
		return Step{Act: "update", S: S, V: v}
	}
	wait := Step{Act: "wait", S: []string{}}
	ns := []int{3, 7, 1, 4}
	// (ii) real gate: every kind, build with version New-1, signer ladder that ends with the sufficient set
	for i, k := range allKinds {
		gate, wrong := "CMT", "ALPHA"
		if k == "neofs" || k == "processing" {
			gate, wrong = "IRMAJ", "CMT"
		}
		n := ns[(i+int(seed))%2] // 3 or 7: the Alphabet and committee accounts differ
		if tier == "thorough" {
			n = ns[i%2]
		}
		out = append(out, &Scenario{N: n, Kind: k, Mode: "real", Lv: cfgNew - 1, Src: "trap:gate", Steps: []Step{
			up(0), up(0, "X"), up(0, "M1"), up(0, wrong), up(0, "IR1"), up(0, "ALPHA", "X", "M1"), up(0, gate), up(0, gate)}})
		if tier == "thorough" {
			out = append(out, &Scenario{N: ns[2+i%2], Kind: k, Mode: "real", Lv: cfgNew - 1, Src: "trap:gate14", Steps: []Step{
				up(0), up(0, "X"), up(0, "M1"), up(0, "IR1"), up(0, gate, "X"), up(0, gate)}})
		}
	}
	// the gate of the main-chain contracts follows the role: right after NeoFSAlphabet is handed over to other keys (designation
	// in block N, update in block N+1) the FORMER majority must be refused and the new one accepted
	for _, k := range []string{"neofs", "processing"} {
		out = append(out, &Scenario{N: 3, Kind: k, Mode: "real", Lv: cfgNew - 1, Src: "trap:gate-handover", Steps: []Step{
			up(0, "X"), {Act: "prep", S: []string{}, Op: "redesignate"}, up(0, "IRMAJOLD"), up(0, "IRMAJOLD", "X"),
			{Act: "prep", S: []string{}, Op: "redesignate"}, up(0, "IRMAJ"), up(0, "IRMAJ")}})
	}
	// version bounds on real contracts (builds with other constants); a rotating subset in the quick tier
	lvs := []int64{cfgPrev - 1, cfgPrev, cfgNew, cfgNew + 1}
	plain := []string{"proxy", "processing", "neofs", "reputation", "neofsid", "audit", "alphabet"} // no structure-changing migration
	for i, k := range plain {
		if tier != "thorough" && (i+int(seed))%4 != 0 {
			continue
		}
		gate := "CMT"
		if k == "neofs" || k == "processing" {
			gate = "IRMAJ"
		}
		for _, lv := range lvs {
			out = append(out, &Scenario{N: 3, Kind: k, Mode: "real", Lv: lv, Src: "trap:bounds", Steps: []Step{up(0, "X"), up(0, gate), up(0, gate)}})
		}
	}
	// (iii) the recorded dumps
	for _, d := range []string{"mainnet", "testnet"} {
		for _, k := range []string{"alphabet", "audit", "balance", "container", "neofsid", "netmap", "reputation"} {
			out = append(out, &Scenario{N: 1, Kind: k, Mode: "dump", Dump: d, Src: "trap:dump", Steps: []Step{up(0, "X"), up(0, "CMT"), wait, up(0, "CMT")}})
		}
	}
	out = append(out, &Scenario{N: 1, Kind: "nns", Mode: "dump", Dump: "testnet", Src: "trap:dump", Steps: []Step{up(0, "X"), up(0, "CMT"), up(0, "CMT")}})
	// stored parameters changed through the OLD contract before the upgrade: snapshot depth below / above the default,
	// then a few epochs (recorded testnet dump: 0.15.4, legacy node structures; mainnet: 0.16.3, non-notary mode)
	prep := func(op string, v int64) Step { return Step{Act: "prep", S: []string{}, V: v, Op: op} }
	for _, cnt := range []int64{3, 12, 15} {
		for _, d := range []string{"testnet", "mainnet"} {
			out = append(out, &Scenario{N: 1, Kind: "netmap", Mode: "dump", Dump: d, Src: "trap:dump-snapcount", Steps: []Step{
				prep("snapcount", cnt), prep("newepoch", 0), prep("newepoch", 0), up(0, "X"), up(0, "CMT"), up(0, "CMT")}})
		}
		out = append(out, &Scenario{N: 3, Kind: "netmap", Mode: "real", Lv: cfgNew - 1, Src: "trap:real-snapcount", Steps: []Step{
			prep("snapcount", cnt), prep("newepoch", 0), prep("newepoch", 0), prep("newepoch", 0), up(0, "X"), up(0, "CMT")}})
	}
	// the ring of every size, every slot in the legacy layout, the current slot at both ends
	for _, rc := range [][2]int{{1, 0}, {10, 9}, {12, 11}, {15, 0}, {15, 14}} {
		st := []Item{{"snapcount", "", "", strconv.Itoa(rc[0])}, {"snapcur", "", "", strconv.Itoa(rc[1])}, {"epoch", "", "", "31"}, {"block", "", "", "9"},
			{"blhash", "", "", "hb"}, {"cnhash", "", "", "hc"}, {"ocand", "k1", "", "1"}, {"ocand", "k2", "", "3"}, {"cfg", "A", "", "va"}}
		for i := 0; i < rc[0]; i++ {
			st = append(st, Item{"osnap", strconv.Itoa(i), "k1", ""}, Item{"osnap", strconv.Itoa(i), uNodes[1+i%2], ""})
		}
		out = append(out, &Scenario{N: 3, Kind: "netmap", Mode: "shell", Src: "trap:ring", Store: st, Steps: []Step{up(cfgPrev, "X")}})
	}
	// pending vote -> wait -> accepted
	out = append(out, &Scenario{N: 3, Kind: "balance", Mode: "shell", Src: "trap:pending", Store: []Item{{"acc", "u1", "", "5"}, {"acc", "l1", "", "3"},
		{"supply", "", "", "8"}, {"notary", "", "", "true"}, {"ballots", "", "", "mixed"}, {"nmhash", "", "", "h"}, {"cnhash", "", "", "h"}, {"junk20", "", "", "x"}},
		Steps: []Step{up(cfgPrev - 1), up(cfgPrev), wait, up(16999), up(cfgNew - 1)}})
	// old-layout accounts WITHOUT any notary flag, from below and above 0.17 (C16h: the re-prefixing of accounts must not hang
	// on the branch that handles the flag)
	for _, v := range []int64{cfgPrev, 16000, 16999, 17000, 19000} {
		out = append(out, &Scenario{N: 3, Kind: "balance", Mode: "shell", Src: "trap:noflag", Store: []Item{{"acc", "u1", "", "5"}, {"acc", "u2", "", "9"},
			{"acc", "l1", "", "3"}, {"supply", "", "", "17"}, {"nmhash", "", "", "h"}, {"cnhash", "", "", "h"}},
			Steps: []Step{up(v, "X"), up(v)}})
	}
	// alphabet leaves the non-notary mode (distributes its GAS)
	out = append(out, &Scenario{N: 4, Kind: "alphabet", Mode: "shell", Src: "trap:alphabet-notary", Store: []Item{{"name", "", "", "az"}, {"index", "", "", "0"},
		{"total", "", "", "7"}, {"nmhash", "", "", "hn"}, {"pxhash", "", "", "h"}, {"notary", "", "", "true"}, {"ballots", "", "", "fresh"}},
		Steps: []Step{up(16000), wait, up(16000)}})
	// witness of the defect: an estimation key of exactly 57 bytes is taken for an owner index entry
	out = append(out, &Scenario{N: 3, Kind: "container", Mode: "shell", Src: "trap:estkey57", Store: []Item{
		{"cnr", "c1", "", "o1"}, {"own", "o1", "c1", "c1"}, {"size", "5", "c1", "10"}, {"size", "big", "c1", "12"}, {"est", "c1", "", "5"},
		{"nnsroot", "", "", "container"}, {"nmhash", "", "", "hn"}}, Steps: []Step{up(19000, "X")}})
	return out
}
