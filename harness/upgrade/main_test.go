package upgrade

import (
	"encoding/json"
	"fmt"
	"math/rand"
	"os"
	"strconv"
	"testing"

	"github.com/stretchr/testify/require"

	"verif/harness/chain"
)

func runScenario(t *testing.T, rec *chain.Recorder, idx int, sc *Scenario, seed int64) {
	for i := range sc.Steps {
		if sc.Steps[i].Act == "update" {
			sc.Steps[i].V = mapVersion(sc.Steps[i].V)
		}
	}
	sc.Lv = mapVersion(sc.Lv)
	w := newWorld(t, sc, seed+int64(idx))
	obs := w.observe()
	store := sc.Store
	if store == nil {
		store = []Item{}
	}
	rec.Emit(chain.Rec{"t": idx, "act": "reset", "S": []string{}, "v": 0, "res": "HALT", "fault": "", "obs": obs,
		"kind": sc.Kind, "mode": sc.Mode, "n": sc.N, "src": sc.Src, "lv": sc.Lv, "dump": sc.Dump, "store": store,
		"new": treeNew, "prev": treePrev})
	for _, st := range sc.Steps {
		r := w.exec(st)
		r["obs"] = w.observe()
		r["t"] = idx
		r["kind"] = sc.Kind
		r["mode"] = sc.Mode
		r["new"] = treeNew
		r["prev"] = treePrev
		rec.Emit(r)
	}
}

func TestDrive(t *testing.T) {
	out := os.Getenv("VERIF_OUT")
	if out == "" {
		t.Skip("VERIF_OUT not set")
	}
	defer func() {
		if tmpRoot != "" {
			os.RemoveAll(tmpRoot)
		}
	}()
	seed, _ := strconv.ParseInt(os.Getenv("VERIF_SEED"), 10, 64)
	nrand, _ := strconv.Atoi(os.Getenv("VERIF_NRAND"))
	shard, _ := strconv.Atoi(os.Getenv("VERIF_SHARD"))
	nshard, _ := strconv.Atoi(os.Getenv("VERIF_NSHARD"))
	if nshard == 0 {
		nshard = 1
	}
	tier := os.Getenv("VERIF_TIER")
	var scs []*Scenario
	if p := os.Getenv("VERIF_SCEN"); p != "" {
		data, err := os.ReadFile(p)
		require.NoError(t, err)
		require.NoError(t, json.Unmarshal(data, &scs))
	}
	ns := []int{1, 3, 4, 7}
	for i, sc := range scs {
		if sc.N == 0 {
			sc.N = ns[i%len(ns)]
		}
		if sc.Src == "" {
			sc.Src = "tlc"
		}
	}
	if os.Getenv("VERIF_NOTRAPS") == "" {
		scs = append(scs, traps(tier, seed)...)
	}
	r := rand.New(rand.NewSource(seed*7919 + 17))
	for i := 0; i < nrand; i++ {
		scs = append(scs, randScenario(r))
	}
	rec := chain.NewRecorder(t, out)
	for i, sc := range scs {
		if i%nshard != shard {
			continue
		}
		runScenario(t, rec, i, sc, seed)
	}
	rec.Close()
	stats, _ := json.Marshal(map[string]any{"lines": rec.N, "scenarios": len(scs), "acts": rec.Acts})
	fmt.Println("DRIVER-STATS " + string(stats))
}
