package upgrade

import (
	"math/rand"
	"strconv"
)

// randScenario: storages of the old layouts with wider values than the TLC universe (any subset of the model
// entities, random balances / states / epochs of every encoding length), random version of the fitting era.
func randScenario(r *rand.Rand) *Scenario {
	kinds := []string{"balance", "container", "netmap", "neofsid", "reputation", "audit", "nns"}
	k := kinds[r.Intn(len(kinds))]
	era := int64(15 + r.Intn(5))
	sc := &Scenario{N: []int{1, 3, 4, 7}[r.Intn(4)], Kind: k, Mode: "shell", Src: "rand"}
	add := func(it ...Item) { sc.Store = append(sc.Store, it...) }
	pick := func(xs []string) string { return xs[r.Intn(len(xs))] }
	n := func(max int) string { return strconv.Itoa(r.Intn(max)) }
	if era < 17 && k != "nns" && r.Intn(3) > 0 {
		nf := pick([]string{"true", "false"})
		add(Item{"notary", "", "", nf})
		if nf == "true" && k != "audit" && r.Intn(4) > 0 {
			add(Item{"ballots", "", "", pick([]string{"empty", "stale", "fresh", "mixed", "mixedrev", "freshmid", "many", "manyfresh", "edge20", "edge21"})})
		}
	}
	switch k {
	case "balance":
		// stored sizes: number of accounts (none / a few / the whole universe), lock accounts with any Until/Parent,
		// balances and supply beyond 64 bits
		big := []string{"1", "255", "65536", "4294967296", "18446744073709551616", "340282366920938463463374607431768211456"}
		add(Item{"supply", "", "", pick(big)})
		share := []int{0, 3, 1}[r.Intn(3)] // none, a third, all
		for _, a := range uAccounts {
			if share == 0 || (share == 3 && r.Intn(3) > 0) {
				continue
			}
			meta := ""
			if a[0] == 'l' || r.Intn(6) == 0 {
				meta = pick([]string{"0", "1", "7", "65536", "-1"}) + "~" + pick([]string{"u1", "u2", "a1"})
			}
			v := strconv.Itoa(r.Intn(1 << 30))
			if r.Intn(4) == 0 {
				v = pick(big)
			}
			add(Item{"acc", a, meta, v})
		}
		if r.Intn(2) == 0 {
			add(Item{"junk20", "", "", "x"})
		}
		if era < 17 {
			add(Item{"nmhash", "", "", "h"}, Item{"cnhash", "", "", "h"})
		}
	case "container":
		add(Item{"nnsroot", "", "", "container"}, Item{"nmhash", "", "", "hn"}, Item{"blhash", "", "", "hb"}, Item{"idhash", "", "", "hi"}, Item{"nnshash", "", "", "hx"})
		ncid := []int{0, 4, len(uCids)}[r.Intn(3)] // stored size: number of containers
		for _, c := range uCids[:ncid] {
			switch r.Intn(4) {
			case 0:
			case 1:
				add(Item{"del", c, "", ""})
			default:
				o := ownerOfCid(c)
				add(Item{"cnr", c, "", o}, Item{"own", o, c, c})
				if r.Intn(2) == 0 {
					add(Item{"eacl", c, "", "e" + n(9)})
				}
				if r.Intn(3) == 0 {
					add(Item{"alias", c, "", "n" + n(9) + ".container"})
				}
				for _, e := range uEpochs {
					if e != "big" && r.Intn(3) == 0 {
						add(Item{"size", e, c, n(1000)})
					}
				}
			}
		}
		if r.Intn(3) == 0 {
			add(Item{"junk32", "", "", "x"})
		}
	case "netmap":
		// stored parameters: snapshot count below / at / above the default of 10, ring position anywhere, all slots filled
		cnt := []int{1, 3, 10, 12, 15, 1 + r.Intn(15)}[r.Intn(6)]
		fill := []int{1, 1, 1, 2}[r.Intn(4)] // every node in every slot (3 of 4 scenarios) or a random half
		add(Item{"snapcount", "", "", strconv.Itoa(cnt)}, Item{"snapcur", "", "", n(cnt)}, Item{"epoch", "", "", strconv.Itoa(15 + r.Intn(25))}, Item{"block", "", "", n(40)})
		for i := 0; i < cnt; i++ {
			for _, kk := range uNodes {
				if r.Intn(fill) == 0 {
					if era < 16 {
						add(Item{"osnap", strconv.Itoa(i), kk, ""})
					} else {
						add(Item{"snap", strconv.Itoa(i), kk, pick([]string{"1", "1", "3"})})
					}
				}
			}
		}
		for _, kk := range uNodes {
			if r.Intn(2) == 0 {
				if era < 16 {
					add(Item{"ocand", kk, "", pick([]string{"1", "2", "3"})})
				} else {
					add(Item{"cand", kk, "", pick([]string{"1", "2", "3"})})
				}
			}
		}
		for _, c := range uCfg {
			if r.Intn(2) == 0 {
				add(Item{"cfg", c, "", "v" + n(99)})
			}
		}
		if era < 19 {
			add(Item{"blhash", "", "", "hb"}, Item{"cnhash", "", "", "hc"})
		} else {
			add(Item{"sub", "0", "hb", ""}, Item{"sub", "1", "hc", ""})
		}
		if era < 17 && r.Intn(2) == 0 {
			add(Item{"innerring", "", "", "ir"})
		}
	case "neofsid":
		for _, o := range uOwners {
			for _, kk := range uNodes {
				if r.Intn(2) == 0 {
					add(Item{"key", o, kk, "1"})
				}
			}
		}
		if era < 17 {
			add(Item{"cnhash", "", "", "h"})
		}
		if era < 19 {
			add(Item{"nmhash", "", "", "h"})
		}
	case "reputation":
		for _, e := range uEpochsNZ {
			for _, kk := range uNodes {
				if r.Intn(2) == 0 {
					add(Item{"cnt", e, kk, "1"}, Item{"val", e, kk, "t" + n(99)})
				}
			}
		}
	case "audit":
		for _, e := range uEpochsNZ {
			for _, c := range uCids {
				if r.Intn(3) == 0 {
					add(Item{"res", e, c, "r" + n(99)})
				}
			}
		}
		if era < 17 {
			add(Item{"nmhash", "", "", "h"})
		}
	case "nns":
		tldOwner := "nil"
		if era < 18 {
			tldOwner = pick([]string{"u1", "u2"})
		}
		own := map[string]int{}
		supply := 0
		add(Item{"price", "", "", n(40)})
		for _, t := range []string{"neofs", "org"} {
			add(Item{"root", t, "", "0"}, Item{"name", t, "owner", tldOwner}, Item{"name", t, "exp", "far"}, Item{"name", t, "admin", "nil"})
			if era < 18 {
				add(Item{"acctok", tldOwner, t, t})
				own[tldOwner]++
				supply++
			}
		}
		for _, nm := range []string{"a.neofs", "b.neofs", "c.neofs", "d.neofs", "site.org", "e.org", "f.org"} {
			if r.Intn(3) > 0 {
				o := pick([]string{"u1", "u2", "u3"})
				add(Item{"name", nm, "owner", o}, Item{"name", nm, "exp", "far"}, Item{"name", nm, "admin", pick([]string{"nil", "u2"})}, Item{"acctok", o, nm, nm})
				own[o]++
				supply++
				nrec := []int{0, 1, 3, 16}[r.Intn(4)] // stored size: records of one type (16 = the maximum)
				for i := 0; i < nrec; i++ {
					add(Item{"rec16", nm, strconv.Itoa(i), "t" + n(99)})
				}
				if r.Intn(3) == 0 {
					add(Item{"rec1", nm, "0", "1.2.3." + n(200)})
				}
			}
		}
		for o, c := range own {
			add(Item{"bal", o, "", strconv.Itoa(c)})
		}
		add(Item{"supply", "", "", strconv.Itoa(supply)})
	}
	vs := []int64{era * 1000, era*1000 + int64(r.Intn(1000)), era*1000 + 999}
	if era == 15 {
		vs = []int64{cfgPrev, cfgPrev + 1, 15999}
	}
	ss := [][]string{{}, {"X"}, {"CMT"}}
	sc.Steps = append(sc.Steps, Step{Act: "update", S: ss[r.Intn(3)], V: []int64{cfgPrev - 1, cfgNew, cfgNew + 1, int64(r.Intn(15004)), 20000 + int64(r.Intn(100000))}[r.Intn(5)]})
	if r.Intn(2) == 0 {
		sc.Steps = append(sc.Steps, Step{Act: "update", S: ss[r.Intn(3)], V: vs[r.Intn(3)]})
	}
	sc.Steps = append(sc.Steps, Step{Act: "wait", S: []string{}}, Step{Act: "update", S: ss[r.Intn(3)], V: vs[r.Intn(3)]},
		Step{Act: "update", S: []string{"CMT"}, V: vs[r.Intn(3)]})
	return sc
}
