package upgrade

import (
	"path/filepath"

	"github.com/nspcc-dev/neo-go/pkg/neotest"
	"github.com/nspcc-dev/neo-go/pkg/util"
	"github.com/nspcc-dev/neo-go/pkg/wallet"
	"github.com/stretchr/testify/require"

	"verif/harness/chain"
)

// setupReal deploys the contract under test compiled from a source copy whose version constants are sc.Lv
// (the tree itself when Lv is the tree's version) and populates it through its own API.
func (w *world) setupReal() {
	t, c := w.t, w.c
	dir := chain.RepoRoot()
	if w.sc.Lv != treeNew {
		dir = loweredDir(t, w.sc.Lv)
	}
	ctr := c.CompileDir(filepath.Join(dir, "contracts", w.kind))
	w.h = ctr.Hash
	A := []neotest.Signer{c.Alpha}
	ok := func(r *chain.Result, what string) { require.True(t, r.Halt, "%s: %s", what, r.Fault) }
	zero := util.Uint160{}
	switch w.kind {
	case "nns":
		c.Deploy(ctr, []any{[]any{[]any{"neofs", "ops@nspcc.io"}, []any{"org", "ops@nspcc.io"}}})
		u1 := neotest.NewSingleSigner(wallet.NewAccountFromPrivateKey(chain.DetKey(w.seed, "acc|u1")))
		c.FundGAS(u1.ScriptHash(), 100_0000_0000)
		ok(c.Run(w.h, []neotest.Signer{u1}, "register", "a.neofs", u1.ScriptHash(), "ops@nspcc.io", 3600, 600, 31536000, 3600), "register")
		ok(c.Run(w.h, []neotest.Signer{u1}, "register", "x.a.neofs", u1.ScriptHash(), "ops@nspcc.io", 3600, 600, 31536000, 3600), "register")
		ok(c.Run(w.h, []neotest.Signer{u1}, "register", "site.org", u1.ScriptHash(), "ops@nspcc.io", 3600, 600, 31536000, 3600), "register")
		ok(c.Run(w.h, []neotest.Signer{u1}, "addRecord", "a.neofs", 16, "txt-a"), "addRecord")
		ok(c.Run(w.h, []neotest.Signer{u1}, "addRecord", "a.neofs", 16, "txt-b"), "addRecord")
		ok(c.Run(w.h, []neotest.Signer{u1}, "addRecord", "site.org", 16, "txt-s"), "addRecord")
		ok(c.Run(w.h, []neotest.Signer{c.Cmt}, "setPrice", 7), "setPrice")
	case "netmap":
		c.Deploy(ctr, []any{false, zero, zero, []any{}, []any{[]byte("ContainerFee"), []byte("fee"), []byte("A"), []byte("va"), []byte("AB"), []byte("vab")}})
		ok(c.Run(w.h, A, "addPeerIR", w.nodeBlob("k1")), "addPeerIR")
		ok(c.Run(w.h, A, "addPeerIR", w.nodeBlob("k2")), "addPeerIR")
		ok(c.Run(w.h, A, "newEpoch", 1), "newEpoch")
		ok(c.Run(w.h, A, "updateStateIR", 3, w.pub("k2")), "updateStateIR")
		ok(c.Run(w.h, A, "addPeerIR", w.nodeBlob("k3")), "addPeerIR")
		ok(c.Run(w.h, A, "newEpoch", 2), "newEpoch")
		ok(c.Run(w.h, A, "setConfig", []byte("id"), []byte("EpochDuration"), []byte("240")), "setConfig")
	case "balance":
		w.nm = c.DeployNetmap()
		c.Deploy(ctr, []any{false, zero, zero})
		ok(c.Run(w.h, A, "mint", w.addr("u1"), 50, []byte("m")), "mint")
		ok(c.Run(w.h, A, "mint", w.addr("u2"), 70, []byte("m")), "mint")
		ok(c.Run(w.h, A, "lock", []byte("tx"), w.addr("u1"), w.addr("l1"), 20, 9), "lock")
		ok(c.Run(w.h, A, "burn", w.addr("u2"), 1, []byte("b")), "burn")
	case "container":
		w.nm = c.DeployNetmap([]byte("ContainerFee"), 0, []byte("ContainerAliasFee"), 0)
		c.DeployBalance()
		c.DeployNeoFSID()
		ok(c.Run(w.nns, []neotest.Signer{c.Cmt}, "registerTLD", "container", "ops@nspcc.io", 3600, 600, 315360000, 3600), "registerTLD")
		c.Deploy(ctr, nil)
		sig := make([]byte, 64)
		ok(c.Run(w.h, A, "put", w.cnrBlob("c1", "o1"), sig, w.pub("k1"), []byte{}), "put")
		ok(c.Run(w.h, A, "put", w.cnrBlob("c2", "o2"), sig, w.pub("k2"), []byte{}), "put")
		ok(c.Run(w.h, A, "putNamed", w.cnrBlob("c3", "o1"), sig, w.pub("k1"), []byte{}, "n1", ""), "putNamed")
		ok(c.Run(w.h, A, "put", w.cnrBlob("c4", "o3"), sig, w.pub("k3"), []byte{}), "put")
		ok(c.Run(w.h, A, "setEACL", eaclBlob("c1"), sig, w.pub("k1"), []byte{}), "setEACL")
		ok(c.Run(w.h, A, "delete", cid("c4"), sig, []byte{}), "delete")
	case "neofsid":
		c.Deploy(ctr, []any{false, zero, zero})
		ok(c.Run(w.h, A, "addKey", w.owner("o1"), []any{w.pub("k1"), w.pub("k2")}), "addKey")
		ok(c.Run(w.h, A, "addKey", w.owner("o2"), []any{w.pub("k3")}), "addKey")
	case "reputation":
		c.Deploy(ctr, []any{false})
		ok(c.Run(w.h, A, "put", 5, w.pub("k1"), []byte("t1")), "put")
		ok(c.Run(w.h, A, "put", 300, w.pub("k2"), []byte("t3")), "put")
	case "audit":
		c.Deploy(ctr, []any{false})
		ok(c.Run(w.h, []neotest.Signer{w.ir1}, "put", w.auditBlob("5", "c1")), "audit put")
		ok(c.Run(w.h, []neotest.Signer{w.ir1}, "put", w.auditBlob("300", "c2")), "audit put")
	case "alphabet":
		w.nm = c.DeployNetmap()
		c.Deploy(ctr, []any{false, w.nm, util.Uint160(hash20arr("hp")), "az", 0, 1})
	case "neofs":
		c.Deploy(ctr, []any{false, util.Uint160(hash20arr("hp")), []any{w.pub("k1"), w.pub("k2"), w.pub("k3")},
			[]any{[]byte("ContainerFee"), []byte("fee"), []byte("A"), []byte("va")}})
	case "processing":
		c.Deploy(ctr, []any{util.Uint160(hash20arr("hn"))})
	case "proxy":
		c.Deploy(ctr, nil)
	default:
		t.Fatalf("real mode: unknown kind %s", w.kind)
	}
}

func hash20arr(n string) [20]byte {
	var a [20]byte
	copy(a[:], hash20(n))
	return a
}

// eACL table (V2): version field, then the container id at the offset the contract computes
func eaclBlob(c string) []byte {
	return cat([]byte{0x0a, 0x04, 0x08, 0x02, 0x10, 0x0d, 0x12, 0x22, 0x0a, 0x20}, cid(c), []byte("eacl:e1"))
}

// DataAuditResult (V2) as the Audit contract parses it: version, epoch (fixed64), container id, public key
func (w *world) auditBlob(e, c string) []byte {
	ep := make([]byte, 8)
	n := num(e).Uint64()
	for i := 0; i < 8; i++ {
		ep[i] = byte(n >> (8 * i))
	}
	return cat([]byte{0x0a, 0x04, 0x08, 0x02, 0x10, 0x0d, 0x11}, ep, []byte{0x1a, 0x22, 0x0a, 0x20}, cid(c), []byte{0x22, 0x21}, w.irKeys[0].PublicKey().Bytes())
}
