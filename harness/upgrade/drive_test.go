// Package upgrade drives the real `update` / `_deploy(data, isUpdate=true)` code of
// all eleven NeoFS contracts (compiled from the working tree) for property C16:
//
//	mode "shell": the helper contract harness/contracts/shell is deployed under the
//	  manifest name of the contract under test, filled with a synthetic storage in
//	  one of the old layouts (generated from abstract model items) and updated TO the
//	  tree build with data = [args..., version] - any version, any prior storage;
//	mode "real": a copy of the sources with only the version constants of
//	  common/version.go changed is compiled, deployed, populated through its API and
//	  updated through its own `update` under every signer set - the real gate;
//	mode "dump": the recorded network dumps of /repo/testdata (tests/migration).
//
// Every step is recorded as one ndjson line with the observed state (version, read
// API as a set of facts, raw storage decoded into abstract items, storage digest,
// NEF checksum) for the trace monitor spec/UpgradeTrace.tla.
package upgrade

import (
	"bytes"
	"crypto/sha256"
	"encoding/hex"
	"fmt"
	"math/big"
	"os"
	"path/filepath"
	"regexp"
	"sort"
	"strconv"
	"strings"
	"testing"

	"github.com/nspcc-dev/neo-go/pkg/core/native/nativenames"
	"github.com/nspcc-dev/neo-go/pkg/core/native/noderoles"
	"github.com/nspcc-dev/neo-go/pkg/core/state"
	"github.com/nspcc-dev/neo-go/pkg/crypto/hash"
	"github.com/nspcc-dev/neo-go/pkg/crypto/keys"
	"github.com/nspcc-dev/neo-go/pkg/encoding/bigint"
	"github.com/nspcc-dev/neo-go/pkg/neotest"
	"github.com/nspcc-dev/neo-go/pkg/util"
	"github.com/nspcc-dev/neo-go/pkg/vm/stackitem"
	"github.com/nspcc-dev/neo-go/pkg/wallet"
	"github.com/nspcc-dev/neofs-contract/common"
	"github.com/stretchr/testify/require"

	"verif/harness/chain"
)

// Item is one storage item in model vocabulary: [shape, a, b, value].
type Item [4]string

// Step is one invocation in model vocabulary (the ev record of Upgrade.tla).
type Step struct {
	Act string   `json:"act"` // "update" | "wait" | "prep"
	S   []string `json:"S"`
	V   int64    `json:"v"`
	Op  string   `json:"op,omitempty"` // prep: operation of the deployed (old) contract, argument in V
}

// Scenario is one contract instance with its pre-upgrade state and the attempts made on it.
type Scenario struct {
	N     int    `json:"n"`
	Src   string `json:"src"`
	Kind  string `json:"kind"`
	Mode  string `json:"mode"`  // "shell" | "real" | "dump"
	Lv    int64  `json:"lv"`    // mode real: version constant of the deployed build
	Dump  string `json:"dump"`  // mode dump: label of the dump
	Store []Item `json:"store"` // mode shell: the synthetic storage
	Steps []Step `json:"steps"`
}

var (
	treeNew  = int64(common.Version)
	treePrev = int64(common.PrevVersion)
)

// constants of the TLA+ configurations (spec/cfg/Upgrade_*.cfg); versions next to them are
// mapped onto the constants of the tree so that a version bump of the repository needs no change here
const (
	cfgNew  = 20000
	cfgPrev = 15004
)

func mapVersion(v int64) int64 {
	for d := int64(-1); d <= 1; d++ {
		if v == cfgNew+d {
			return treeNew + d
		}
		if v == cfgPrev+d {
			return treePrev + d
		}
	}
	return v
}

var manifestName = map[string]string{
	"alphabet": "NeoFS Alphabet", "audit": "NeoFS Audit", "balance": "NeoFS Balance", "container": "NeoFS Container",
	"neofs": "NeoFS", "neofsid": "NeoFS ID", "netmap": "NeoFS Netmap", "nns": "NameService",
	"processing": "NeoFS Multi Signature Processing", "proxy": "NeoFS Notary Proxy", "reputation": "NeoFS Reputation",
}

var allKinds = []string{"alphabet", "audit", "balance", "container", "neofs", "neofsid", "netmap", "nns", "processing", "proxy", "reputation"}

func harnessRoot() string {
	if r := os.Getenv("VERIF_HARNESS"); r != "" {
		return r
	}
	return "/verif/harness"
}

// ---------------------------------------------------------------------------------------------
// world

type world struct {
	t        *testing.T
	c        *chain.Chain
	sc       *Scenario
	kind     string
	h        util.Uint160 // the contract under test
	target   *neotest.Contract
	stranger neotest.Signer
	irKeys   []*keys.PrivateKey
	irMaj    neotest.Signer
	ir1      neotest.Signer
	irMajOld neotest.Signer // majority of the previously designated keys (after prep "redesignate")
	regen    int
	nns, nm  util.Uint160
	keymap   map[string][3]string // hex(key) -> shape, a, b
	seed     int64
	ballotH  int64 // height written into "fresh" ballots
	dump     *dumpWorld
	skip     map[string]bool // API methods the pre-upgrade contract does not have (dump mode)
}

var tmpRoot string // per-process scratch (lowered source copies, shell configs)

func scratch(t *testing.T) string {
	if tmpRoot == "" {
		d, err := os.MkdirTemp("", "verif-upgrade-")
		require.NoError(t, err)
		tmpRoot = d
	}
	return tmpRoot
}

// shellFor compiles the shell under the manifest name of kind.
func (w *world) shellFor(kind string) *neotest.Contract {
	dir := filepath.Join(harnessRoot(), "contracts", "shell")
	cfg := filepath.Join(scratch(w.t), "shell_"+kind+".yml")
	if _, err := os.Stat(cfg); err != nil {
		require.NoError(w.t, os.WriteFile(cfg, []byte("name: \""+manifestName[kind]+"\"\nsafemethods: []\npermissions:\n  - methods: \"*\"\n"), 0o644))
	}
	c0 := neotest.CompileFile(w.t, w.c.E.Validator.ScriptHash(), dir, cfg)
	c1 := *c0
	return &c1
}

// loweredDir returns a copy of the contract sources whose version constants are set to v.
func loweredDir(t *testing.T, v int64) string {
	dst := filepath.Join(scratch(t), fmt.Sprintf("src-%d", v))
	if _, err := os.Stat(dst); err == nil {
		return dst
	}
	src := chain.RepoRoot()
	copyTree := func(rel string) {
		require.NoError(t, filepath.Walk(filepath.Join(src, rel), func(p string, info os.FileInfo, err error) error {
			if err != nil {
				return err
			}
			r, _ := filepath.Rel(src, p)
			if info.IsDir() {
				return os.MkdirAll(filepath.Join(dst, r), 0o755)
			}
			if !(strings.HasSuffix(p, ".go") || strings.HasSuffix(p, ".yml")) || strings.HasSuffix(p, "_test.go") {
				return nil
			}
			b, err := os.ReadFile(p)
			if err != nil {
				return err
			}
			return os.WriteFile(filepath.Join(dst, r), b, 0o644)
		}))
	}
	require.NoError(t, os.MkdirAll(dst, 0o755))
	copyTree("common")
	copyTree("contracts")
	for _, f := range []string{"go.mod", "go.sum"} {
		b, err := os.ReadFile(filepath.Join(src, f))
		require.NoError(t, err)
		require.NoError(t, os.WriteFile(filepath.Join(dst, f), b, 0o644))
	}
	vf := filepath.Join(dst, "common", "version.go")
	b, err := os.ReadFile(vf)
	require.NoError(t, err)
	s := string(b)
	rep := func(name string, val int64) {
		re := regexp.MustCompile(`(?m)^(\s*)` + name + `(\s*)=\s*\d+\s*$`)
		require.True(t, re.MatchString(s), "constant %s not found in common/version.go", name)
		s = re.ReplaceAllString(s, "${1}"+name+"${2}= "+strconv.FormatInt(val, 10))
	}
	rep("major", v/1_000_000)
	rep("minor", (v/1_000)%1_000)
	rep("patch", v%1_000)
	require.NoError(t, os.WriteFile(vf, []byte(s), 0o644))
	return dst
}

func newWorld(t *testing.T, sc *Scenario, seed int64) *world {
	w := &world{t: t, sc: sc, kind: sc.Kind, seed: seed, keymap: map[string][3]string{}, skip: map[string]bool{}}
	curWorld = w
	if sc.Mode == "dump" {
		w.dump = newDumpWorld(t, sc)
		// answers of methods the recorded version does not have cannot be compared before/after
		for _, m := range []string{"containersOf", "alias", "owner", "count", "listContainerSizes", "getContainerSize", "getByID",
			"listByEpoch", "snapshot", "listConfig", "netmapCandidates", "tokens", "roots", "getPrice", "properties", "getRecords",
			"resolve", "tokensOf", "ownerOf", "getAllRecords", "snapshotByEpoch", "lastEpochBlock", "listNodes", "listCandidates",
			"iterateContainerSizes", "iterateAllContainerSizes", "decimals", "symbol", "listByCID", "listByNode", "key", "list", "get", "eACL", "netmap", "config", "epoch", "balanceOf", "totalSupply", "name"} {
			if !w.dump.old[m] {
				w.skip[m] = true
			}
		}
		return w
	}
	c := chain.New(t, sc.N, seed)
	w.c = c
	w.stranger = c.NewUser("stranger", 0)
	for i := 0; i < 3; i++ {
		w.irKeys = append(w.irKeys, chain.DetKey(seed, "ir"+strconv.Itoa(i)))
	}
	sort.Slice(w.irKeys, func(i, j int) bool { return w.irKeys[i].PublicKey().Cmp(w.irKeys[j].PublicKey()) < 0 })
	w.irMaj = multi(t, w.irKeys, 2)
	w.ir1 = neotest.NewSingleSigner(wallet.NewAccountFromPrivateKey(w.irKeys[0]))
	if w.kind != "nns" {
		w.nns = c.DeployNNS()
	}
	if needsIR(sc) {
		pubs := make([]any, len(w.irKeys))
		for i := range w.irKeys {
			pubs[i] = w.irKeys[i].PublicKey().Bytes()
		}
		r := c.Run(c.E.NativeHash(t, nativenames.Designation), []neotest.Signer{c.Cmt}, "designateAsRole", int64(noderoles.NeoFSAlphabet), pubs)
		require.True(t, r.Halt, "designate: %s", r.Fault)
	}
	if w.kind != "nns" {
		w.target = c.Compile(w.kind)
	} else {
		w.target = c.Compile("nns")
	}
	w.buildKeymap()
	switch sc.Mode {
	case "shell":
		w.setupShell()
	case "real":
		w.setupReal()
	default:
		t.Fatalf("unknown mode %q", sc.Mode)
	}
	return w
}

func needsIR(sc *Scenario) bool {
	return sc.Kind == "neofs" || sc.Kind == "processing" || sc.Kind == "audit" || sc.Kind == "alphabet"
}

func multi(t testing.TB, privs []*keys.PrivateKey, m int) neotest.Signer {
	pubs := make(keys.PublicKeys, len(privs))
	for i := range privs {
		pubs[i] = privs[i].PublicKey()
	}
	accs := make([]*wallet.Account, len(privs))
	for i := range privs {
		accs[i] = wallet.NewAccountFromPrivateKey(privs[i])
		cp := make(keys.PublicKeys, len(pubs))
		copy(cp, pubs)
		require.NoError(t, accs[i].ConvertMultisig(m, cp))
	}
	return neotest.NewMultiSigner(accs...)
}

// ---------------------------------------------------------------------------------------------
// model values -> bytes

var derived = map[string][]byte{} // (seed, label) -> bytes; key generation is the expensive part of the encoding

func (w *world) addr(name string) []byte { // 20-byte account
	k := strconv.FormatInt(w.seed, 10) + "|acc|" + name
	if b, ok := derived[k]; ok {
		return b
	}
	b := chain.DetKey(w.seed, "acc|"+name).PublicKey().GetScriptHash().BytesBE()
	derived[k] = b
	return b
}
func (w *world) pub(name string) []byte { // 33-byte public key
	k := strconv.FormatInt(w.seed, 10) + "|node|" + name
	if b, ok := derived[k]; ok {
		return b
	}
	b := chain.DetKey(w.seed, "node|"+name).PublicKey().Bytes()
	derived[k] = b
	return b
}
func (w *world) owner(name string) []byte { // 25-byte NeoFS owner id
	a := w.addr("owner|" + name)
	b := append([]byte{0x35}, a...)
	cs := hash.Checksum(b)
	return append(b, cs...)
}
// every model container has a fixed owner, so that its id is the hash of its binary form in every mode
var cidOwner = map[string]string{"c1": "o1", "c2": "o2", "c3": "o1", "c4": "o3"}
var curWorld *world

func ownerOfCid(c string) string {
	if o, ok := cidOwner[c]; ok {
		return o
	}
	n, _ := strconv.Atoi(strings.TrimPrefix(c, "c"))
	return "o" + strconv.Itoa(n%3+1)
}

func cid(name string) []byte {
	k := strconv.FormatInt(curWorld.seed, 10) + "|cid|" + name
	if b, ok := derived[k]; ok {
		return b
	}
	h := sha256.Sum256(curWorld.cnrBlob(name, ownerOfCid(name)))
	derived[k] = h[:]
	return h[:]
}
func hash20(name string) []byte {
	h := sha256.Sum256([]byte("h20|" + name))
	return h[:20]
}

var bigEpoch = new(big.Int).Lsh(big.NewInt(1), 88) // VM integer of 12 bytes

func num(s string) *big.Int {
	if s == "big" {
		return bigEpoch
	}
	if s == "" {
		return big.NewInt(0)
	}
	b, ok := new(big.Int).SetString(s, 10)
	if !ok {
		panic("bad number " + s)
	}
	return b
}
func numStr(b *big.Int) string {
	if b.Cmp(bigEpoch) == 0 {
		return "big"
	}
	return b.String()
}
func vmInt(s string) []byte { return bigint.ToBytes(num(s)) }

func ser(it stackitem.Item) []byte {
	b, err := stackitem.Serialize(it)
	if err != nil {
		panic(err)
	}
	return b
}
func bs(b []byte) stackitem.Item { return stackitem.NewByteArray(b) }
func in(s string) stackitem.Item { return stackitem.NewBigInteger(num(s)) }
func cat(bb ...[]byte) []byte {
	var o []byte
	for _, b := range bb {
		o = append(o, b...)
	}
	return o
}

// container blob (V2): version field, then the owner at the offset the contract computes
func (w *world) cnrBlob(c, o string) []byte {
	return cat([]byte{0x0a, 0x04, 0x08, 0x02, 0x10, 0x0d, 0x12, 0x1b, 0x0a, 0x19}, w.owner(o), []byte{0x1a, 0x10}, hash20("nonce|"+c)[:16])
}

// node info blob (V2): the public key starts at offset 2
func (w *world) nodeBlob(k string) []byte {
	return cat([]byte{0x0a, 0x21}, w.pub(k), []byte{0x12, 0x08}, []byte("/ip4/"+k+"x")[:8])
}

// ---------------------------------------------------------------------------------------------
// shapes: abstract item <-> storage item

type shape struct {
	key func(w *world, a, b string) []byte
	val func(w *world, a, b, v string) []byte
	dec func(w *world, a, b string, raw []byte) string
	ids func(w *world) [][2]string // (a,b) combinations of the universe, for decoding raw keys
}

func fixedKey(k string) func(*world, string, string) []byte {
	return func(*world, string, string) []byte { return []byte(k) }
}
func one(*world) [][2]string { return [][2]string{{"", ""}} }
func over(xs ...string) func(*world) [][2]string {
	return func(*world) [][2]string {
		var o [][2]string
		for _, x := range xs {
			o = append(o, [2]string{x, ""})
		}
		return o
	}
}
func over2(xs, ys []string) func(*world) [][2]string {
	return func(*world) [][2]string {
		var o [][2]string
		for _, x := range xs {
			for _, y := range ys {
				o = append(o, [2]string{x, y})
			}
		}
		return o
	}
}

var (
	uAccounts = append([]string{"u1", "u2", "u3", "l1", "l2", "l3"}, seqNames("a", 1, 48)...) // a*: bulk accounts (every 6th is a lock account)
	uCids     = append([]string{"c1", "c2", "c3", "c4"}, seqNames("c", 5, 24)...)
	uOwners   = []string{"o1", "o2", "o3"}
	uNodes    = []string{"k1", "k2", "k3"}
	uEpochs   = []string{"5", "300", "70000", "big"} // epoch 0 encodes as the empty string and prefixes everything (C20)
	uEpochsNZ = []string{"5", "300", "70000"} // stores whose listings take the epoch as a key prefix (no encoding is a prefix of another)
	uCfg      = []string{"ContainerFee", "EpochDuration", "HomomorphicHashingDisabled", "A", "AB"}
	uNames    = []string{"neofs", "container", "org", "a.neofs", "b.neofs", "c.neofs", "d.neofs", "x.a.neofs", "n1.container", "site.org", "e.org", "f.org"}
	uIdx      = seqNames("", 0, 15)
)

func seqNames(prefix string, from, to int) []string {
	var o []string
	for i := from; i <= to; i++ {
		o = append(o, prefix+strconv.Itoa(i))
	}
	return o
}

func hexVal(_ *world, _, _ string, raw []byte) string { return "x" + hex.EncodeToString(raw) }
func strVal(_ *world, _, _, v string) []byte          { return []byte(v) }
func strDec(_ *world, _, _ string, raw []byte) string { return printable(raw) }
func intVal(_ *world, _, _, v string) []byte          { return vmInt(v) }
func intDec(_ *world, _, _ string, raw []byte) string { return numStr(bigint.FromBytes(raw)) }
func h20Val(_ *world, _, _, v string) []byte          { return hash20(v) }
func h20Dec(_ *world, _, _ string, raw []byte) string {
	for _, n := range []string{"h", "hb", "hc", "hn", "hp", "hi", "hx"} {
		if bytes.Equal(raw, hash20(n)) {
			return n
		}
	}
	return "x" + hex.EncodeToString(raw)
}
func boolVal(_ *world, _, _, v string) []byte {
	if v == "true" {
		return []byte{1}
	}
	return []byte{0}
}
func boolDec(_ *world, _, _ string, raw []byte) string {
	if len(raw) == 1 && raw[0] == 1 {
		return "true"
	}
	if len(raw) == 1 && raw[0] == 0 {
		return "false"
	}
	return "x" + hex.EncodeToString(raw)
}

// ballots: "empty" | "stale" | "fresh" | "mixed" (one stale and one fresh ballot)
func ballotsVal(w *world, _, _, v string) []byte {
	mk := func(id string, h int64) stackitem.Item {
		return stackitem.NewStruct([]stackitem.Item{bs(hash20(id)), stackitem.NewArray([]stackitem.Item{bs(w.pub("k1"))}), stackitem.Make(h)})
	}
	var arr []stackitem.Item
	switch v {
	case "stale":
		arr = []stackitem.Item{mk("b1", -1000)}
	case "fresh":
		arr = []stackitem.Item{mk("b1", w.ballotH)}
	case "mixed":
		arr = []stackitem.Item{mk("b1", -1000), mk("b2", w.ballotH)}
	case "mixedrev": // the fresh ballot FIRST, a stale one last (Vote refreshes a ballot's height in place, so this order occurs)
		arr = []stackitem.Item{mk("b1", w.ballotH), mk("b2", -1000)}
	case "freshmid": // stale, fresh, stale
		arr = []stackitem.Item{mk("b1", -1000), mk("b2", w.ballotH-3), mk("b3", -900)}
	case "many": // eight stale ballots
		for i := 0; i < 8; i++ {
			arr = append(arr, mk("b"+strconv.Itoa(i), -1000-int64(i)))
		}
	case "manyfresh": // seven stale ballots and a fresh one at the end
		for i := 0; i < 7; i++ {
			arr = append(arr, mk("b"+strconv.Itoa(i), -1000-int64(i)))
		}
		arr = append(arr, mk("b7", w.ballotH))
	case "edge20": // exactly 20 blocks old when the next transaction runs: still pending
		arr = []stackitem.Item{mk("b1", w.ballotH-20)}
	case "edge21": // 21 blocks old: stale
		arr = []stackitem.Item{mk("b1", w.ballotH-21)}
	}
	return ser(stackitem.NewArray(arr))
}
func (w *world) ballotsDec(_, _ string, raw []byte) string {
	it, err := stackitem.Deserialize(raw)
	if err != nil {
		return "x" + hex.EncodeToString(raw)
	}
	arr, ok := it.Value().([]stackitem.Item)
	if !ok {
		return "x" + hex.EncodeToString(raw)
	}
	if len(arr) == 0 {
		return "empty"
	}
	// freshness is judged against the height the NEXT transaction will see
	cur := int64(w.height())
	fresh, stale := 0, 0
	for _, b := range arr {
		f := b.Value().([]stackitem.Item)
		h, _ := f[2].TryInteger()
		if cur-h.Int64() <= 20 {
			fresh++
		} else {
			stale++
		}
	}
	switch {
	case fresh > 0 && stale > 0:
		return "mixed"
	case fresh > 0:
		return "fresh"
	}
	return "stale"
}

func (w *world) height() uint32 {
	if w.dump != nil {
		return w.dump.height()
	}
	return w.c.Height()
}

// account: value = balance; b = "" for an ordinary account, "until~parent" for a lock account (accounts named l*
// are lock accounts with the default "7~u1" when b is empty)
func accountVal(w *world, a, b, v string) []byte {
	until, parent := stackitem.Make(0), stackitem.Item(stackitem.Null{})
	if b == "" && strings.HasPrefix(a, "l") {
		b = "7~u1"
	}
	if b != "" {
		p := strings.SplitN(b, "~", 2)
		until, parent = in(p[0]), bs(w.addr(p[1]))
	}
	return ser(stackitem.NewStruct([]stackitem.Item{in(v), until, parent}))
}

// lockMeta decodes Until/Parent of a stored account ("" for an ordinary account)
func (w *world) lockMeta(raw []byte) string {
	it, err := stackitem.Deserialize(raw)
	if err != nil {
		return ""
	}
	f, ok := it.Value().([]stackitem.Item)
	if !ok || len(f) != 3 {
		return ""
	}
	u, err := f[1].TryInteger()
	if err != nil {
		return "?"
	}
	pb := chain.ItemBytes(f[2])
	if u.Sign() == 0 && len(pb) == 0 {
		return ""
	}
	return numStr(u) + "~" + w.accName(pb)
}
func accountDec(_ *world, _, _ string, raw []byte) string {
	it, err := stackitem.Deserialize(raw)
	if err != nil {
		return "x" + hex.EncodeToString(raw)
	}
	f, ok := it.Value().([]stackitem.Item)
	if !ok || len(f) != 3 {
		return "x" + hex.EncodeToString(raw)
	}
	n, err := f[0].TryInteger()
	if err != nil {
		return "x" + hex.EncodeToString(raw)
	}
	return numStr(n)
}

var junk20 = []byte("verif-junk-key-20-by")
var junk32 = []byte("verif-junk-key-of-32-bytes-long!")

func commonShapes() map[string]shape {
	return map[string]shape{
		"notary":  {key: fixedKey("notary"), val: boolVal, dec: boolDec, ids: one},
		"ballots": {key: fixedKey("ballots"), val: ballotsVal, dec: func(w *world, a, b string, raw []byte) string { return w.ballotsDec(a, b, raw) }, ids: one},
	}
}

func hashShape(k string) shape { return shape{key: fixedKey(k), val: h20Val, dec: h20Dec, ids: one} }

func cnrVal(w *world, c, _, o string) []byte {
	return ser(stackitem.NewStruct([]stackitem.Item{bs(w.cnrBlob(c, o)), bs(bytes.Repeat([]byte{1}, 64)), bs(w.pub("k1")), bs([]byte{})}))
}
func (w *world) ownerName(o []byte) string {
	for _, n := range uOwners {
		if bytes.Equal(o, w.owner(n)) {
			return n
		}
	}
	return "x" + hex.EncodeToString(o)
}
func (w *world) cidName(c []byte) string {
	for _, n := range uCids {
		if bytes.Equal(c, cid(n)) {
			return n
		}
	}
	return "x" + hex.EncodeToString(c)
}
func (w *world) nodeName(k []byte) string {
	for _, n := range uNodes {
		if bytes.Equal(k, w.pub(n)) {
			return n
		}
	}
	return "x" + hex.EncodeToString(k)
}
func cnrDec(w *world, _, _ string, raw []byte) string {
	it, err := stackitem.Deserialize(raw)
	if err != nil {
		return "x" + hex.EncodeToString(raw)
	}
	f, ok := it.Value().([]stackitem.Item)
	if !ok || len(f) != 4 {
		return "x" + hex.EncodeToString(raw)
	}
	b, _ := f[0].TryBytes()
	if len(b) < 35 {
		return "x" + hex.EncodeToString(raw)
	}
	return w.ownerName(b[10:35])
}
func eaclVal(w *world, _, _, v string) []byte {
	return ser(stackitem.NewStruct([]stackitem.Item{bs([]byte("eacl:" + v)), bs(bytes.Repeat([]byte{2}, 64)), bs(w.pub("k1")), bs([]byte{})}))
}
func eaclDec(_ *world, _, _ string, raw []byte) string {
	it, err := stackitem.Deserialize(raw)
	if err != nil {
		return "x" + hex.EncodeToString(raw)
	}
	f, ok := it.Value().([]stackitem.Item)
	if !ok || len(f) != 4 {
		return "x" + hex.EncodeToString(raw)
	}
	b, _ := f[0].TryBytes()
	if !strings.HasPrefix(string(b), "eacl:") {
		h := sha256.Sum256(b)
		return "x" + hex.EncodeToString(h[:8])
	}
	return strings.TrimPrefix(string(b), "eacl:")
}
func sizeVal(w *world, _, _, v string) []byte {
	return ser(stackitem.NewStruct([]stackitem.Item{bs(w.pub("k1")), in(v)}))
}
func sizeDec(_ *world, _, _ string, raw []byte) string {
	it, err := stackitem.Deserialize(raw)
	if err != nil {
		return "x" + hex.EncodeToString(raw)
	}
	f, ok := it.Value().([]stackitem.Item)
	if !ok || len(f) != 2 {
		return "x" + hex.EncodeToString(raw)
	}
	n, err := f[1].TryInteger()
	if err != nil {
		return "x" + hex.EncodeToString(raw)
	}
	return numStr(n)
}
func sizeKey(w *world, e, c string) []byte {
	return cat([]byte("cnr"), vmInt(e), cid(c), hash.RipeMD160(w.pub("k1")).BytesBE()[:10])
}
func intListVal(_ *world, _, _, v string) []byte {
	var arr []stackitem.Item
	for _, x := range strings.Split(v, ",") {
		if x != "" {
			arr = append(arr, in(x))
		}
	}
	return ser(stackitem.NewArray(arr))
}
func intListDec(_ *world, _, _ string, raw []byte) string {
	it, err := stackitem.Deserialize(raw)
	if err != nil {
		return "x" + hex.EncodeToString(raw)
	}
	arr, ok := it.Value().([]stackitem.Item)
	if !ok {
		return "x" + hex.EncodeToString(raw)
	}
	var o []string
	for _, x := range arr {
		n, _ := x.TryInteger()
		o = append(o, numStr(n))
	}
	return strings.Join(o, ",")
}

// netmap nodes: model value "k1:1,k2:2" (key:state); legacy snapshot "k1,k2"
func (w *world) nodesNew(v string) []byte {
	arr := []stackitem.Item{}
	for _, x := range strings.Split(v, ",") {
		if x == "" {
			continue
		}
		p := strings.SplitN(x, ":", 2)
		arr = append(arr, stackitem.NewStruct([]stackitem.Item{bs(w.nodeBlob(p[0])), in(p[1])}))
	}
	return ser(stackitem.NewArray(arr))
}
func (w *world) nodesOld(v string) []byte {
	arr := []stackitem.Item{}
	for _, x := range strings.Split(v, ",") {
		if x == "" {
			continue
		}
		arr = append(arr, stackitem.NewStruct([]stackitem.Item{bs(w.nodeBlob(x))}))
	}
	return ser(stackitem.NewArray(arr))
}

// wellFormedNode: the two-field structure (BLOB, State) the read API of the tree version documents
func wellFormedNode(it stackitem.Item) bool {
	f, ok := it.Value().([]stackitem.Item)
	if !ok || len(f) != 2 {
		return false
	}
	if _, compound := f[0].Value().([]stackitem.Item); compound {
		return false
	}
	if _, err := f[0].TryBytes(); err != nil {
		return false
	}
	_, err := f[1].TryInteger()
	return err == nil
}

// nodeStr renders a node structure returned by the read API as "key:state". An answer of the tree version must be
// the two-field structure, anything else (a legacy one-field or nested structure that was not migrated) is
// rendered with state "?".
func (w *world) nodeStr(it stackitem.Item) string {
	s := w.nodeStrLenient(it)
	if !wellFormedNode(it) {
		return s[:strings.LastIndex(s, ":")+1] + "?"
	}
	return s
}

// nodeStrLenient flattens a (possibly nested, possibly state-less) node structure into "key:state"
func (w *world) nodeStrLenient(it stackitem.Item) string {
	var leaves []stackitem.Item
	var walk func(stackitem.Item)
	walk = func(x stackitem.Item) {
		if arr, ok := x.Value().([]stackitem.Item); ok && (x.Type() == stackitem.StructT || x.Type() == stackitem.ArrayT) {
			for _, y := range arr {
				walk(y)
			}
			return
		}
		leaves = append(leaves, x)
	}
	walk(it)
	if len(leaves) == 0 {
		return "x"
	}
	blob, _ := leaves[0].TryBytes()
	name := "x" + hex.EncodeToString(blob)
	if len(blob) >= 35 {
		name = w.nodeName(blob[2:35])
		if !bytes.Equal(blob, w.nodeBlob(name)) {
			name = "x" + hex.EncodeToString(blob)
		}
	}
	st := "1" // the legacy structure has no state: implicitly Online
	if len(leaves) > 1 {
		n, err := leaves[1].TryInteger()
		if err == nil {
			st = n.String()
		}
	}
	return name + ":" + st
}
func (w *world) nodesDec(raw []byte) string {
	it, err := stackitem.Deserialize(raw)
	if err != nil {
		return "x" + hex.EncodeToString(raw)
	}
	arr, ok := it.Value().([]stackitem.Item)
	if !ok {
		return "x" + hex.EncodeToString(raw)
	}
	var o []string
	for _, x := range arr {
		f, ok := x.Value().([]stackitem.Item)
		if !ok {
			return "x" + hex.EncodeToString(raw)
		}
		s := w.nodeStrLenient(x)
		if len(f) == 1 { // legacy: no state field
			s = strings.TrimSuffix(s, ":1")
		}
		o = append(o, s)
	}
	return strings.Join(o, ",")
}

// nns name state: model value "owner|exp|admin" (owner/admin: account name or "nil"; exp: "far"|"past")
const farMs = int64(4_102_444_800_000) // 2100-01-01
const pastMs = int64(1_000)

func (w *world) nameStateVal(name, v string) []byte {
	p := strings.Split(v, "|")
	acc := func(s string) stackitem.Item {
		if s == "nil" {
			return stackitem.Null{}
		}
		return bs(w.addr(s))
	}
	exp := farMs
	if p[1] == "past" {
		exp = pastMs
	}
	return ser(stackitem.NewStruct([]stackitem.Item{acc(p[0]), bs([]byte(name)), stackitem.Make(exp), acc(p[2])}))
}
func (w *world) accName(b []byte) string {
	if len(b) == 0 {
		return "nil"
	}
	for _, n := range uAccounts {
		if bytes.Equal(b, w.addr(n)) {
			return n
		}
	}
	if w.c != nil && bytes.Equal(b, w.c.Cmt.ScriptHash().BytesBE()) {
		return "CMT"
	}
	return "x" + hex.EncodeToString(b)
}
func expName(n *big.Int) string {
	switch n.Int64() {
	case farMs:
		return "far"
	case pastMs:
		return "past"
	}
	return n.String()
}
func (w *world) nameStateDec(raw []byte) string {
	it, err := stackitem.Deserialize(raw)
	if err != nil {
		return "x" + hex.EncodeToString(raw)
	}
	f, ok := it.Value().([]stackitem.Item)
	if !ok || len(f) != 4 {
		return "x" + hex.EncodeToString(raw)
	}
	e, _ := f[2].TryInteger()
	return w.accName(chain.ItemBytes(f[0])) + "|" + expName(e) + "|" + w.accName(chain.ItemBytes(f[3]))
}
func tokenKey(name string) []byte { return hash.RipeMD160([]byte(name)).BytesBE() }

// nns record: a = name, b = "type:id", value = data; stored under the token = registered suffix (here: the name itself
// or its parent when the name is not registered - the scenario only uses registered names)
func recVal(_ *world, name, ti, v string) []byte {
	p := strings.Split(ti, ":")
	typ, _ := strconv.Atoi(p[0])
	id, _ := strconv.Atoi(p[1])
	return ser(stackitem.NewStruct([]stackitem.Item{bs([]byte(name)), stackitem.Make(typ), bs([]byte(v)), stackitem.Make(id)}))
}
func recDec(_ *world, _, _ string, raw []byte) string {
	it, err := stackitem.Deserialize(raw)
	if err != nil {
		return "x" + hex.EncodeToString(raw)
	}
	f, ok := it.Value().([]stackitem.Item)
	if !ok || len(f) != 4 {
		return "x" + hex.EncodeToString(raw)
	}
	b, _ := f[2].TryBytes()
	return string(b)
}

func kindShapes(kind string) map[string]shape {
	m := commonShapes()
	switch kind {
	case "balance":
		m["acc"] = shape{key: func(w *world, a, _ string) []byte { return w.addr(a) }, val: accountVal, dec: accountDec, ids: over(uAccounts...)}
		m["aacc"] = shape{key: func(w *world, a, _ string) []byte { return cat([]byte{'a'}, w.addr(a)) }, val: accountVal, dec: accountDec, ids: over(uAccounts...)}
		m["supply"] = shape{key: fixedKey("MainnetGAS"), val: intVal, dec: intDec, ids: one}
		m["nmhash"] = hashShape("netmapScriptHash")
		m["cnhash"] = hashShape("containerScriptHash")
		m["junk20"] = shape{key: func(*world, string, string) []byte { return junk20 }, val: strVal, dec: strDec, ids: one}
		m["ajunk"] = shape{key: func(*world, string, string) []byte { return cat([]byte{'a'}, junk20) }, val: strVal, dec: strDec, ids: one}
	case "container":
		m["cnr"] = shape{key: func(_ *world, c, _ string) []byte { return cid(c) }, val: cnrVal, dec: cnrDec, ids: over(uCids...)}
		m["xcnr"] = shape{key: func(_ *world, c, _ string) []byte { return cat([]byte{'x'}, cid(c)) }, val: cnrVal, dec: cnrDec, ids: over(uCids...)}
		cidVal := func(_ *world, _, c, _ string) []byte { return cid(c) }
		cidDec := func(w *world, _, _ string, raw []byte) string { return w.cidName(raw) }
		m["own"] = shape{key: func(w *world, o, c string) []byte { return cat(w.owner(o), cid(c)) }, val: cidVal, dec: cidDec, ids: over2(uOwners, uCids)}
		m["oown"] = shape{key: func(w *world, o, c string) []byte { return cat([]byte{'o'}, w.owner(o), cid(c)) }, val: cidVal, dec: cidDec, ids: over2(uOwners, uCids)}
		m["eacl"] = shape{key: func(_ *world, c, _ string) []byte { return cat([]byte("eACL"), cid(c)) }, val: eaclVal, dec: eaclDec, ids: over(uCids...)}
		m["alias"] = shape{key: func(_ *world, c, _ string) []byte { return cat([]byte("nnsHasAlias"), cid(c)) }, val: strVal, dec: strDec, ids: over(uCids...)}
		m["del"] = shape{key: func(_ *world, c, _ string) []byte { return cat([]byte{'d'}, cid(c)) }, val: strVal, dec: strDec, ids: over(uCids...)}
		m["est"] = shape{key: func(w *world, c, _ string) []byte {
			return cat([]byte("est"), cid(c), hash.RipeMD160(w.pub("k1")).BytesBE())
		}, val: intListVal, dec: intListDec, ids: over(uCids...)}
		m["size"] = shape{key: sizeKey, val: sizeVal, dec: sizeDec, ids: over2(uEpochs, uCids)}
		m["osize"] = shape{key: func(w *world, e, c string) []byte { return cat([]byte{'o'}, sizeKey(w, e, c)) }, val: sizeVal, dec: sizeDec, ids: over2(uEpochs, uCids)}
		m["xsize"] = shape{key: func(w *world, e, c string) []byte { return cat([]byte{'x'}, sizeKey(w, e, c)) }, val: sizeVal, dec: sizeDec, ids: over2(uEpochs, uCids)}
		m["junk32"] = shape{key: func(*world, string, string) []byte { return junk32 }, val: strVal, dec: strDec, ids: one}
		m["xjunk"] = shape{key: func(*world, string, string) []byte { return cat([]byte{'x'}, junk32) }, val: strVal, dec: strDec, ids: one}
		m["nmhash"] = hashShape("netmapScriptHash")
		m["blhash"] = hashShape("balanceScriptHash")
		m["idhash"] = hashShape("identityScriptHash")
		m["nnshash"] = hashShape("nnsScriptHash")
		m["nnsroot"] = shape{key: fixedKey("nnsRoot"), val: strVal, dec: strDec, ids: one}
	case "netmap":
		m["snapcount"] = shape{key: fixedKey("snapshotCount"), val: intVal, dec: intDec, ids: one}
		m["snapcur"] = shape{key: fixedKey("snapshotCurrent"), val: intVal, dec: intDec, ids: one}
		m["epoch"] = shape{key: fixedKey("snapshotEpoch"), val: intVal, dec: intDec, ids: one}
		m["block"] = shape{key: fixedKey("snapshotBlock"), val: intVal, dec: intDec, ids: one}
		snapKey := func(_ *world, i, _ string) []byte { n, _ := strconv.Atoi(i); return cat([]byte("snapshot_"), []byte{byte(n)}) }
		// one storage key, two value layouts: the shape name says which layout the value has
		m["snap"] = shape{key: snapKey, val: func(w *world, _, _, v string) []byte { return w.nodesNew(v) },
			dec: func(w *world, _, _ string, raw []byte) string { return w.nodesDec(raw) }, ids: over(uIdx...)}
		m["osnap"] = shape{key: snapKey, val: func(w *world, _, _, v string) []byte { return w.nodesOld(v) }}
		candKey := func(w *world, k, _ string) []byte { return cat([]byte("candidate"), w.pub(k)) }
		m["cand"] = shape{key: candKey, val: func(w *world, k, _, v string) []byte {
			return ser(stackitem.NewStruct([]stackitem.Item{bs(w.nodeBlob(k)), in(v)}))
		}, dec: func(w *world, _, _ string, raw []byte) string {
			it, err := stackitem.Deserialize(raw)
			if err != nil {
				return "x" + hex.EncodeToString(raw)
			}
			s := w.nodeStrLenient(it)
			return s[strings.LastIndex(s, ":")+1:]
		}, ids: over(uNodes...)}
		m["ocand"] = shape{key: candKey, val: func(w *world, k, _, v string) []byte {
			return ser(stackitem.NewStruct([]stackitem.Item{stackitem.NewStruct([]stackitem.Item{bs(w.nodeBlob(k))}), in(v)}))
		}}
		m["cfg"] = shape{key: func(_ *world, n, _ string) []byte { return cat([]byte("config"), []byte(n)) }, val: strVal, dec: strDec, ids: over(uCfg...)}
		m["blhash"] = hashShape("balanceScriptHash")
		m["cnhash"] = hashShape("containerScriptHash")
		m["innerring"] = shape{key: fixedKey("innerring"), val: strVal, dec: strDec, ids: one}
		m["sub"] = shape{key: func(_ *world, i, h string) []byte { n, _ := strconv.Atoi(i); return cat([]byte("e"), []byte{byte(n)}, hash20(h)) },
			val: func(*world, string, string, string) []byte { return []byte{} }, dec: strDec, ids: over2([]string{"0", "1", "2"}, []string{"hb", "hc", "hx"})}
		m["sub0"] = shape{key: func(_ *world, i, _ string) []byte { n, _ := strconv.Atoi(i); return cat([]byte("e"), []byte{byte(n)}) },
			val: func(*world, string, string, string) []byte { return []byte{} }, dec: strDec, ids: over("0", "1")}
	case "nns":
		m["supply"] = shape{key: func(*world, string, string) []byte { return []byte{0x00} }, val: intVal, dec: intDec, ids: one}
		m["bal"] = shape{key: func(w *world, o, _ string) []byte { return cat([]byte{0x01}, w.addr(o)) }, val: intVal, dec: intDec, ids: over(uAccounts...)}
		m["acctok"] = shape{key: func(w *world, o, n string) []byte { return cat([]byte{0x02}, w.addr(o), tokenKey(n)) },
			val: func(_ *world, _, n, _ string) []byte { return []byte(n) }, dec: strDec, ids: over2(uAccounts, uNames)}
		m["price"] = shape{key: func(*world, string, string) []byte { return []byte{0x10} }, val: intVal, dec: intDec, ids: one}
		m["root"] = shape{key: func(_ *world, n, _ string) []byte { return cat([]byte{0x20}, []byte(n)) }, val: intVal, dec: intDec, ids: over(uNames...)}
		m["name"] = shape{key: func(_ *world, n, _ string) []byte { return cat([]byte{0x21}, tokenKey(n)) },
			val: func(w *world, n, _, v string) []byte { return w.nameStateVal(n, v) },
			dec: func(w *world, _, _ string, raw []byte) string { return w.nameStateDec(raw) }, ids: over(uNames...)}
		for _, typ := range []int{1, 6, 16} {
			typ := typ
			m["rec"+strconv.Itoa(typ)] = shape{key: func(_ *world, n, id string) []byte {
				i, _ := strconv.Atoi(id)
				return cat([]byte{0x22}, tokenKey(n), tokenKey(n), []byte{byte(typ), byte(i)})
			}, val: func(w *world, n, id, v string) []byte { return recVal(w, n, strconv.Itoa(typ)+":"+id, v) }, dec: recDec, ids: over2(uNames, uIdx)}
		}
		m["nbal0"] = shape{key: func(*world, string, string) []byte { return []byte{0x01} }, val: intVal, dec: intDec, ids: one}
	case "neofsid":
		m["key"] = shape{key: func(w *world, o, k string) []byte { return cat([]byte{'o'}, w.owner(o), w.pub(k)) },
			val: func(*world, string, string, string) []byte { return []byte{1} }, dec: intDec, ids: over2(uOwners, uNodes)}
		m["nmhash"] = hashShape("netmapScriptHash")
		m["cnhash"] = hashShape("containerScriptHash")
	case "reputation":
		m["cnt"] = shape{key: func(w *world, e, p string) []byte { return cat([]byte{'c'}, vmInt(e), w.pub(p)) }, val: intVal, dec: intDec, ids: over2(uEpochsNZ, uNodes)}
		m["val"] = shape{key: func(w *world, e, p string) []byte { return cat([]byte{'r'}, vmInt(e), w.pub(p), []byte{1}) }, val: strVal, dec: strDec, ids: over2(uEpochsNZ, uNodes)}
	case "audit":
		m["res"] = shape{key: func(w *world, e, c string) []byte { return auditID(w, e, c) }, val: strVal, dec: strDec, ids: over2(uEpochsNZ, uCids)}
		m["nmhash"] = hashShape("netmapScriptHash")
	case "alphabet":
		m["name"] = shape{key: fixedKey("name"), val: strVal, dec: strDec, ids: one}
		m["index"] = shape{key: fixedKey("index"), val: intVal, dec: intDec, ids: one}
		m["total"] = shape{key: fixedKey("threshold"), val: intVal, dec: intDec, ids: one}
		m["nmhash"] = hashShape("netmapScriptHash")
		m["pxhash"] = hashShape("proxyScriptHash")
	case "neofs":
		m["alphabet"] = shape{key: fixedKey("alphabet"), val: func(w *world, _, _, v string) []byte {
			var arr []stackitem.Item
			for _, k := range strings.Split(v, ",") {
				arr = append(arr, bs(w.pub(k)))
			}
			return ser(stackitem.NewArray(arr))
		}, dec: func(w *world, _, _ string, raw []byte) string {
			it, err := stackitem.Deserialize(raw)
			if err != nil {
				return "x" + hex.EncodeToString(raw)
			}
			var o []string
			for _, x := range it.Value().([]stackitem.Item) {
				b, _ := x.TryBytes()
				o = append(o, w.nodeName(b))
			}
			return strings.Join(o, ",")
		}, ids: one}
		m["cfg"] = shape{key: func(_ *world, n, _ string) []byte { return cat([]byte("config"), []byte(n)) }, val: strVal, dec: strDec, ids: over(uCfg...)}
		m["irc"] = shape{key: func(w *world, k, _ string) []byte { return cat([]byte("candidates"), w.pub(k)) },
			val: func(*world, string, string, string) []byte { return []byte{1} }, dec: intDec, ids: over(uNodes...)}
		m["prochash"] = hashShape("processingScriptHash")
	case "processing":
		m["neofshash"] = hashShape("neofsScriptHash")
	}
	return m
}

func auditID(w *world, e, c string) []byte {
	h := sha256.Sum256(w.irKeys[0].PublicKey().Bytes())
	return cat(vmInt(e), cid(c), h[:24])
}

func (w *world) buildKeymap() {
	for sh, d := range kindShapes(w.kind) {
		if d.ids == nil {
			continue
		}
		for _, ab := range d.ids(w) {
			w.keymap[hex.EncodeToString(d.key(w, ab[0], ab[1]))] = [3]string{sh, ab[0], ab[1]}
		}
	}
}

// decodeStore projects the raw storage into abstract items (unknown keys are kept verbatim under shape "?")
func (w *world) decodeStore(raw map[string][]byte) []Item {
	shapes := kindShapes(w.kind)
	out := []Item{}
	for k, v := range raw {
		if e, ok := w.keymap[k]; ok {
			sh := e[0]
			val := shapes[sh].dec(w, e[1], e[2], v)
			// same key, legacy value layout
			if w.kind == "netmap" && sh == "snap" && isOldSnap(v) {
				sh = "osnap"
			}
			if w.kind == "netmap" && sh == "cand" && isOldCand(v) {
				sh = "ocand"
			}
			switch {
			case w.kind == "balance" && (sh == "acc" || sh == "aacc"):
				out = append(out, Item{sh, e[1], w.lockMeta(v), val})
			case w.kind == "netmap" && (sh == "snap" || sh == "osnap"):
				// one model item per (slot, node)
				for _, x := range strings.Split(val, ",") {
					if x == "" {
						continue
					}
					p := strings.SplitN(x, ":", 2)
					st := ""
					if len(p) == 2 {
						st = p[1]
					}
					out = append(out, Item{sh, e[1], p[0], st})
				}
			case w.kind == "nns" && sh == "name":
				p := strings.Split(val, "|")
				if len(p) == 3 {
					out = append(out, Item{"name", e[1], "owner", p[0]}, Item{"name", e[1], "exp", p[1]}, Item{"name", e[1], "admin", p[2]})
				} else {
					out = append(out, Item{sh, e[1], e[2], val})
				}
			default:
				out = append(out, Item{sh, e[1], e[2], val})
			}
		} else {
			out = append(out, Item{"?", "x" + k, "", "x" + hex.EncodeToString(v)})
		}
	}
	sort.Slice(out, func(i, j int) bool { return strings.Join(out[i][:], "\x00") < strings.Join(out[j][:], "\x00") })
	return out
}

func isOldSnap(raw []byte) bool {
	it, err := stackitem.Deserialize(raw)
	if err != nil {
		return false
	}
	arr, ok := it.Value().([]stackitem.Item)
	if !ok || len(arr) == 0 {
		return false
	}
	f, ok := arr[0].Value().([]stackitem.Item)
	return ok && len(f) == 1
}
func isOldCand(raw []byte) bool {
	it, err := stackitem.Deserialize(raw)
	if err != nil {
		return false
	}
	f, ok := it.Value().([]stackitem.Item)
	if !ok || len(f) != 2 {
		return false
	}
	_, nested := f[0].Value().([]stackitem.Item)
	return nested && f[0].Type() == stackitem.StructT
}

// ---------------------------------------------------------------------------------------------
// setup: shell mode

func (w *world) setupShell() {
	sh := w.shellFor(w.kind)
	sh.Hash = stateHash(w.c, sh)
	if w.kind == "nns" {
		// the NNS contract of a NeoFS chain has id 1; here the shell simply is another contract with the NNS manifest name
	}
	w.c.Deploy(sh, nil)
	w.h = sh.Hash
	if w.kind == "alphabet" {
		w.nm = w.c.DeployNetmap()
		w.c.FundGAS(w.h, 1000_0000_0000)
	}
	shapes := kindShapes(w.kind)
	var ks, vs []any
	var ballots *Item
	for _, it := range groupItems(w.kind, w.sc.Store) {
		d, ok := shapes[it[0]]
		require.True(w.t, ok, "kind %s: unknown shape %q", w.kind, it[0])
		if it[0] == "ballots" {
			it := it
			ballots = &it
			continue
		}
		ks = append(ks, d.key(w, it[1], it[2]))
		vs = append(vs, d.val(w, it[1], it[2], it[3]))
	}
	for i := 0; i < len(ks); i += 40 {
		j := min(i+40, len(ks))
		r := w.c.Run(w.h, nil, "putMany", ks[i:j], vs[i:j])
		require.True(w.t, r.Halt, "shell fill: %s", r.Fault)
	}
	// the ballots go last, in their own block: the next transaction (the first update attempt) sees
	// ledger.CurrentIndex() = the index of that block = ballotH, so ages are exact
	w.ballotH = int64(w.c.Height()) + 1
	if ballots != nil {
		d := shapes["ballots"]
		r := w.c.Run(w.h, nil, "put", d.key(w, "", ""), d.val(w, "", "", ballots[3]))
		require.True(w.t, r.Halt, "shell fill: %s", r.Fault)
	}
}

func stateHash(c *chain.Chain, ctr *neotest.Contract) util.Uint160 {
	return state.CreateContractHash(c.E.Validator.ScriptHash(), ctr.NEF.Checksum, ctr.Manifest.Name)
}

// groupItems folds the per-node / per-field model items into one item per storage key
func groupItems(kind string, store []Item) []Item {
	var out []Item
	idx := map[string]int{}
	for _, it := range store {
		switch {
		case kind == "netmap" && (it[0] == "snap" || it[0] == "osnap"):
			k := it[0] + "|" + it[1]
			el := it[2]
			if it[0] == "snap" {
				el += ":" + it[3]
			}
			if i, ok := idx[k]; ok {
				if it[2] != "" {
					if out[i][3] != "" {
						out[i][3] += ","
					}
					out[i][3] += el
				}
			} else {
				idx[k] = len(out)
				if it[2] == "" {
					el = ""
				}
				out = append(out, Item{it[0], it[1], "", el})
			}
		case kind == "nns" && it[0] == "name":
			k := "name|" + it[1]
			i, ok := idx[k]
			if !ok {
				i = len(out)
				idx[k] = i
				out = append(out, Item{"name", it[1], "", "nil|far|nil"})
			}
			p := strings.Split(out[i][3], "|")
			switch it[2] {
			case "owner":
				p[0] = it[3]
			case "exp":
				p[1] = it[3]
			case "admin":
				p[2] = it[3]
			}
			out[i][3] = strings.Join(p, "|")
		default:
			out = append(out, it)
		}
	}
	return out
}
