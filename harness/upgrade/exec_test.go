package upgrade

import (
	"crypto/sha256"
	"encoding/hex"
	"encoding/json"
	"sort"
	"strconv"
	"strings"

	"github.com/nspcc-dev/neo-go/pkg/core/native/nativenames"
	"github.com/nspcc-dev/neo-go/pkg/core/native/noderoles"
	"github.com/nspcc-dev/neo-go/pkg/crypto/keys"
	"github.com/nspcc-dev/neo-go/pkg/encoding/bigint"
	"github.com/nspcc-dev/neo-go/pkg/neotest"
	"github.com/nspcc-dev/neo-go/pkg/wallet"
	"github.com/nspcc-dev/neo-go/pkg/vm/stackitem"
	"github.com/stretchr/testify/require"

	"verif/harness/chain"
)

// signer set: model names -> signers; returns the normalised name list (an account that coincides with
// another named account carries that name too)
func (w *world) signers(S []string) ([]neotest.Signer, []string) {
	var out []neotest.Signer
	set := map[string]bool{}
	c := w.c
	for _, s := range S {
		set[s] = true
		switch s {
		case "ALPHA":
			out = append(out, c.Alpha)
			if c.Cmt.ScriptHash() == c.Alpha.ScriptHash() {
				set["CMT"] = true
			}
		case "CMT":
			out = append(out, c.Cmt)
			if c.Cmt.ScriptHash() == c.Alpha.ScriptHash() {
				set["ALPHA"] = true
			}
		case "M1":
			out = append(out, c.Members[0])
		case "X":
			out = append(out, w.stranger)
		case "IRMAJ":
			out = append(out, w.irMaj)
		case "IRMAJOLD": // the majority of the keys that were designated BEFORE the last prep "redesignate"
			require.NotNil(w.t, w.irMajOld, "IRMAJOLD without a preceding redesignate")
			out = append(out, w.irMajOld)
		case "IR1":
			out = append(out, w.ir1)
		default:
			w.t.Fatalf("unknown signer %q", s)
		}
	}
	names := make([]string, 0, len(set))
	for s := range set {
		names = append(names, s)
	}
	sort.Strings(names)
	return out, names
}

func (w *world) updateArgs() []any {
	if w.kind == "alphabet" {
		nm := []byte{}
		if w.nm != ([20]byte{}) {
			nm = w.nm.BytesBE()
		}
		return []any{false, nm, hash20("hp"), "az", 0, 0}
	}
	return []any{}
}

func (w *world) isShell() bool {
	_, ok := w.call("version")
	return !ok
}

func (w *world) exec(st Step) chain.Rec {
	if w.dump != nil {
		return w.dump.exec(w, st)
	}
	rec := chain.Rec{"act": st.Act, "S": []string{}, "v": st.V, "res": "HALT", "fault": ""}
	switch st.Act {
	case "wait":
		w.c.Skip(21)
	case "prep":
		rec["op"] = st.Op
		var r *chain.Result
		switch {
		case w.kind == "netmap" && st.Op == "snapcount":
			r = w.c.Run(w.h, []neotest.Signer{w.c.Alpha}, "updateSnapshotCount", st.V)
		case w.kind == "netmap" && st.Op == "newepoch":
			e, _ := w.rawInt("snapshotEpoch")
			r = w.c.Run(w.h, []neotest.Signer{w.c.Alpha}, "newEpoch", e+1)
		case st.Op == "redesignate":
			// NeoFSAlphabet handed over to a fresh key set (tenth seeded batch, C16g): takes effect in the NEXT block, which is
			// the block of the following step - from there on "IRMAJ" is the majority of the new keys
			w.regen++
			var nk []*keys.PrivateKey
			for i := 0; i < 3; i++ {
				nk = append(nk, chain.DetKey(w.seed, "ir-gen"+strconv.Itoa(w.regen)+"-"+strconv.Itoa(i)))
			}
			sort.Slice(nk, func(i, j int) bool { return nk[i].PublicKey().Cmp(nk[j].PublicKey()) < 0 })
			pubs := make([]any, len(nk))
			for i := range nk {
				pubs[i] = nk[i].PublicKey().Bytes()
			}
			r = w.c.Run(w.c.E.NativeHash(w.t, nativenames.Designation), []neotest.Signer{w.c.Cmt}, "designateAsRole", int64(noderoles.NeoFSAlphabet), pubs)
			w.irMajOld, w.irKeys = w.irMaj, nk
			w.irMaj = multi(w.t, nk, 2)
			w.ir1 = neotest.NewSingleSigner(wallet.NewAccountFromPrivateKey(nk[0]))
		default:
			w.t.Fatalf("unknown prep op %q for %s", st.Op, w.kind)
		}
		rec["res"] = r.Res()
		rec["fault"] = r.Fault
	case "update":
		sg, names := w.signers(st.S)
		rec["S"] = names
		ne, err := w.target.NEF.Bytes()
		require.NoError(w.t, err)
		mf, err := json.Marshal(w.target.Manifest)
		require.NoError(w.t, err)
		var r *chain.Result
		if w.isShell() {
			data := append(w.updateArgs(), st.V)
			r = w.c.Run(w.h, sg, "update", ne, mf, data)
		} else {
			// the deployed code appends ITS version constant; the version in the record is what it appends
			v, _ := w.call("version")
			n, _ := v.TryInteger()
			rec["v"] = n.Int64()
			r = w.c.Run(w.h, sg, "update", ne, mf, w.updateArgs())
		}
		rec["res"] = r.Res()
		rec["fault"] = r.Fault
	default:
		w.t.Fatalf("unknown act %q", st.Act)
	}
	return rec
}

func (w *world) call(method string, args ...any) (stackitem.Item, bool) {
	if w.skip[method] {
		return nil, false
	}
	if w.dump != nil {
		return w.dump.call(method, args...)
	}
	st, err := w.c.Call(w.h, method, args...)
	if err != nil || len(st) != 1 {
		return nil, false
	}
	return st[0], true
}

// observe projects the contract under test into model values
func (w *world) observe() map[string]any {
	var raw map[string][]byte
	var nef, upd, digest any
	if w.dump != nil {
		raw, nef, upd, digest = w.dump.raw()
	} else {
		raw = w.c.Storage(w.h)
		cs := w.c.E.Chain.GetContractState(w.h)
		nef, upd, digest = strconv.FormatUint(uint64(cs.NEF.Checksum), 10), int(cs.UpdateCounter), w.c.StorageDigest(w.h)
	}
	ver := int64(-1)
	if v, ok := w.call("version"); ok {
		if n, err := v.TryInteger(); err == nil {
			ver = n.Int64()
		}
	}
	if w.dump != nil {
		w.dump.curVer = ver
	}
	api, info := [][3]string{}, [][3]string{}
	if ver >= 0 {
		api, info = w.probe()
	}
	store := w.decodeStore(raw)
	if w.dump != nil {
		store = []Item{} // the recorded storages are not decoded into model items; the digest stands for them
	}
	return map[string]any{"ver": ver, "api": api, "info": info, "store": store, "raw": digest, "nef": nef, "upd": upd,
		"pend": w.pending(raw)}
}

// pending: the legacy notary flag is set and the ballots hold a vote not older than 20 blocks
func (w *world) pending(raw map[string][]byte) bool {
	nf, ok := raw[hex.EncodeToString([]byte("notary"))]
	if !ok || !(len(nf) == 1 && nf[0] == 1) {
		return false
	}
	bl, ok := raw[hex.EncodeToString([]byte("ballots"))]
	if !ok {
		return false
	}
	s := w.ballotsDec("", "", bl)
	return s == "fresh" || s == "mixed" || strings.HasPrefix(s, "x")
}

// ---------------------------------------------------------------------------------------------
// read API as facts (method, argument, value); default answers (0, empty, not found) are omitted

type facts struct {
	w    *world
	api  [][3]string
	info [][3]string
}

func (f *facts) add(m, a, v string) { f.api = append(f.api, [3]string{m, a, v}) }
func (f *facts) inf(m, a, v string) { f.info = append(f.info, [3]string{m, a, v}) }

func arr(it stackitem.Item) []stackitem.Item {
	if it == nil {
		return nil
	}
	a, _ := it.Value().([]stackitem.Item)
	return a
}

func itemStr(it stackitem.Item) string {
	if it.Type() == stackitem.AnyT {
		return "null"
	}
	if b, err := it.TryBytes(); err == nil {
		return "x" + hex.EncodeToString(b)
	}
	j, _ := json.Marshal(chain.ItemJSON(it))
	return string(j)
}

// list adds one fact per element (plus the number of elements, so that duplicates are visible)
func (f *facts) list(m, a string, name func(stackitem.Item) string, args ...any) {
	if f.w.skip[m] {
		return
	}
	it, ok := f.w.call(m, args...)
	if !ok {
		f.add(m, a, "FAULT")
		return
	}
	els := arr(it)
	for _, e := range els {
		f.add(m, a, name(e))
	}
	if len(els) > 0 {
		f.add(m+"#", a, strconv.Itoa(len(els)))
	}
}

func (w *world) probe() ([][3]string, [][3]string) {
	f := &facts{w: w, api: [][3]string{}, info: [][3]string{}}
	bytesName := func(fn func([]byte) string) func(stackitem.Item) string {
		return func(it stackitem.Item) string {
			b, err := it.TryBytes()
			if err != nil {
				return itemStr(it)
			}
			return fn(b)
		}
	}
	switch w.kind {
	case "balance":
		accs := uAccounts
		if w.dump != nil {
			accs = w.dump.ids["acc"]
		}
		for _, a := range accs {
			var arg []byte
			if w.dump != nil {
				arg, _ = hex.DecodeString(a)
			} else {
				arg = w.addr(a)
			}
			if it, ok := w.call("balanceOf", arg); ok {
				if n, err := it.TryInteger(); err == nil && n.Sign() != 0 {
					f.add("balanceOf", a, numStr(n))
				}
			} else {
				f.add("balanceOf", a, "FAULT")
			}
		}
		if it, ok := w.call("totalSupply"); ok {
			n, _ := it.TryInteger()
			f.add("totalSupply", "", numStr(n))
		} else {
			f.add("totalSupply", "", "FAULT")
		}
		if it, ok := w.call("decimals"); ok {
			n, _ := it.TryInteger()
			f.add("decimals", "", n.String())
		}
		if it, ok := w.call("symbol"); ok {
			b, _ := it.TryBytes()
			f.add("symbol", "", string(b))
		}
	case "container":
		w.probeContainer(f, bytesName)
	case "netmap":
		w.probeNetmap(f)
	case "nns":
		w.probeNNS(f)
	case "neofsid":
		owners := uOwners
		if w.dump != nil {
			owners = w.dump.ids["owner"]
		}
		for _, o := range owners {
			var arg []byte
			if w.dump != nil {
				arg, _ = hex.DecodeString(o)
			} else {
				arg = w.owner(o)
			}
			f.list("key", o, bytesName(w.nodeName), arg)
		}
	case "reputation":
		eps := uEpochsNZ
		if w.dump != nil {
			eps = w.dump.ids["epoch"]
		}
		for _, e := range eps {
			f.list("listByEpoch", e, bytesName(func(b []byte) string {
				eb := vmInt(e)
				if len(b) >= len(eb) {
					return w.nodeName(b[len(eb):])
				}
				return "x" + hex.EncodeToString(b)
			}), num(e))
			if w.dump == nil {
				for _, p := range uNodes {
					f.list("get", e+"|"+p, bytesName(func(b []byte) string { return string(b) }), num(e), w.pub(p))
					f.list("getByID", e+"|"+p, bytesName(func(b []byte) string { return string(b) }), cat(vmInt(e), w.pub(p)))
				}
			} else if it, ok := w.call("listByEpoch", num(e)); ok {
				for i, id := range arr(it) {
					if i >= 6 {
						break
					}
					b, _ := id.TryBytes()
					f.list("getByID", "x"+hex.EncodeToString(b), itemStr, b)
				}
			}
		}
	case "audit":
		legacy := func(b []byte) bool { return string(b) == "notary" || string(b) == "netmapScriptHash" }
		idName := func(b []byte) string {
			if e, ok := w.keymap[hex.EncodeToString(b)]; ok {
				return e[1] + "|" + e[2]
			}
			return "x" + hex.EncodeToString(b)
		}
		// the listing methods enumerate raw storage keys; the two legacy service keys are not audit results
		if it, ok := w.call("list"); ok {
			for _, e := range arr(it) {
				b, _ := e.TryBytes()
				if legacy(b) {
					continue
				}
				f.add("list", "", idName(b))
				if v, ok := w.call("get", b); ok {
					vb, _ := v.TryBytes()
					f.add("get", idName(b), printable(vb))
				}
			}
		} else {
			f.add("list", "", "FAULT")
		}
		for _, e := range uEpochsNZ {
			for _, c := range uCids {
				if w.dump != nil {
					break
				}
				if it, ok := w.call("listByCID", num(e), cid(c)); ok {
					for _, x := range arr(it) {
						b, _ := x.TryBytes()
						f.add("listByCID", e+"|"+c, idName(b))
					}
				}
				if it, ok := w.call("listByNode", num(e), cid(c), w.irKeys[0].PublicKey().Bytes()); ok {
					for _, x := range arr(it) {
						b, _ := x.TryBytes()
						f.add("listByNode", e+"|"+c, idName(b))
					}
				}
			}
			if it, ok := w.call("listByEpoch", num(e)); ok {
				for _, x := range arr(it) {
					b, _ := x.TryBytes()
					if legacy(b) {
						continue
					}
					f.add("listByEpoch", e, idName(b))
				}
			}
		}
	case "alphabet":
		if it, ok := w.call("name"); ok {
			b, _ := it.TryBytes()
			f.add("name", "", string(b))
		} else {
			f.add("name", "", "FAULT")
		}
	case "neofs":
		if it, ok := w.call("alphabetList"); ok {
			var ks []string
			for _, x := range arr(it) {
				b, _ := arr(x)[0].TryBytes()
				ks = append(ks, w.nodeName(b))
			}
			f.add("alphabetList", "", strings.Join(ks, ","))
		}
		f.list("innerRingCandidates", "", func(it stackitem.Item) string {
			b, _ := arr(it)[0].TryBytes()
			return w.nodeName(b)
		})
		f.list("listConfig", "", func(it stackitem.Item) string {
			k, _ := arr(it)[0].TryBytes()
			v, _ := arr(it)[1].TryBytes()
			return string(k) + "=" + string(v)
		})
		for _, n := range uCfg {
			if it, ok := w.call("config", []byte(n)); ok && it.Type() != stackitem.AnyT {
				b, _ := it.TryBytes()
				f.add("config", n, string(b))
			}
		}
	}
	sortFacts(f.api)
	sortFacts(f.info)
	return f.api, f.info
}

func sortFacts(x [][3]string) {
	sort.Slice(x, func(i, j int) bool { return strings.Join(x[i][:], "\x00") < strings.Join(x[j][:], "\x00") })
}

func (w *world) probeContainer(f *facts, bytesName func(func([]byte) string) func(stackitem.Item) string) {
	cids, owners := uCids, uOwners
	cidArg := func(c string) []byte { return cid(c) }
	ownArg := func(o string) []byte { return w.owner(o) }
	if w.dump != nil {
		cids, owners = w.dump.ids["cid"], w.dump.ids["owner"]
		cidArg = func(c string) []byte { b, _ := hex.DecodeString(c); return b }
		ownArg = cidArg
	}
	cname := func(b []byte) string {
		if w.dump != nil {
			return hex.EncodeToString(b)
		}
		if len(b) != 32 {
			return "bogus"
		}
		if string(b) == string(junk32) {
			return "junk"
		}
		return w.cidName(b)
	}
	if !w.skip["count"] {
		if it, ok := w.call("count"); ok {
			n, _ := it.TryInteger()
			f.add("count", "", n.String())
		} else {
			f.add("count", "", "FAULT")
		}
	}
	f.list("list", "", bytesName(cname), []byte{})
	f.list("containersOf", "", bytesName(cname), []byte{})
	for _, o := range owners {
		f.list("list", o, bytesName(cname), ownArg(o))
		f.list("containersOf", o, bytesName(cname), ownArg(o))
	}
	for _, c := range cids {
		if it, ok := w.call("get", cidArg(c)); ok {
			if fl := arr(it); len(fl) == 4 {
				b, _ := fl[0].TryBytes()
				if len(b) > 0 {
					if w.dump != nil {
						h := sha256sum(b)
						f.add("get", c, h)
					} else if len(b) >= 35 {
						f.add("get", c, w.ownerName(b[10:35]))
					} else {
						f.add("get", c, "x"+hex.EncodeToString(b))
					}
				}
			}
		}
		if !w.skip["owner"] {
			if it, ok := w.call("owner", cidArg(c)); ok {
				b, _ := it.TryBytes()
				if w.dump != nil {
					f.add("owner", c, hex.EncodeToString(b))
				} else {
					f.add("owner", c, w.ownerName(b))
				}
			}
		}
		if it, ok := w.call("eACL", cidArg(c)); ok {
			if fl := arr(it); len(fl) == 4 {
				b, _ := fl[0].TryBytes()
				if len(b) > 0 {
					if w.dump != nil {
						f.add("eACL", c, sha256sum(b))
					} else if strings.HasPrefix(string(b), "eacl:") {
						f.add("eACL", c, strings.TrimPrefix(string(b), "eacl:"))
					} else {
						f.add("eACL", c, "x"+sha256sum(b))
					}
				}
			}
		}
		if !w.skip["alias"] {
			if it, ok := w.call("alias", cidArg(c)); ok {
				b, _ := it.TryBytes()
				if len(b) > 0 {
					f.add("alias", c, string(b))
				}
			}
		}
	}
	eps := uEpochs
	if w.dump != nil {
		eps = w.dump.ids["epoch"]
	}
	for _, e := range eps {
		// estimation ids of the epoch: "cnr" || int(epoch) || cid
		if w.skip["listContainerSizes"] {
			continue
		}
		if all, ok := w.call("iterateAllContainerSizes", num(e)); ok && !w.skip["iterateAllContainerSizes"] {
			for _, kv := range arr(all) {
				p := arr(kv)
				if len(p) != 2 {
					continue
				}
				kb, _ := p[0].TryBytes()
				c := "x" + hex.EncodeToString(kb)
				if len(kb) >= 32 {
					c = cname(kb[:32])
				}
				sz := "?"
				if ef := arr(p[1]); len(ef) == 2 {
					n, _ := ef[1].TryInteger()
					sz = numStr(n)
				}
				f.add("iterateAllContainerSizes", e, c+":"+sz)
			}
		}
		it, ok := w.call("listContainerSizes", num(e))
		if !ok {
			f.add("listContainerSizes", e, "FAULT")
			continue
		}
		for _, id := range arr(it) {
			b, _ := id.TryBytes()
			c := "x" + hex.EncodeToString(b)
			if len(b) >= 35 {
				c = cname(b[len(b)-32:])
			}
			f.add("listContainerSizes", e, c)
			if len(b) >= 35 && !w.skip["iterateContainerSizes"] {
				if its, ok := w.call("iterateContainerSizes", num(e), b[len(b)-32:]); ok {
					for _, est := range arr(its) {
						if ef := arr(est); len(ef) == 2 {
							n, _ := ef[1].TryInteger()
							f.add("iterateContainerSizes", e+"|"+c, numStr(n))
						}
					}
				}
			}
			if sz, ok := w.call("getContainerSize", b); ok {
				if fl := arr(sz); len(fl) == 2 {
					for _, est := range arr(fl[1]) {
						ef := arr(est)
						if len(ef) == 2 {
							n, _ := ef[1].TryInteger()
							f.add("getContainerSize", e+"|"+c, numStr(n))
						}
					}
				}
			}
		}
	}
}

// rawInt reads an integer storage item of the contract under test
func (w *world) rawInt(key string) (int64, bool) {
	var raw map[string][]byte
	if w.dump != nil {
		raw, _, _, _ = w.dump.raw()
	} else {
		raw = w.c.Storage(w.h)
	}
	v, ok := raw[hex.EncodeToString([]byte(key))]
	if !ok {
		return 0, false
	}
	return bigint.FromBytes(v).Int64(), true
}

func (w *world) probeNetmap(f *facts) {
	if it, ok := w.call("epoch"); ok {
		n, _ := it.TryInteger()
		f.add("epoch", "", n.String())
	} else {
		f.add("epoch", "", "FAULT")
	}
	if it, ok := w.call("lastEpochBlock"); ok {
		n, _ := it.TryInteger()
		f.add("lastEpochBlock", "", n.String())
	}
	node := func(it stackitem.Item) string {
		if w.dump != nil {
			return w.dump.nodeStr(it)
		}
		return w.nodeStr(it)
	}
	f.list("netmap", "", node)
	f.list("netmapCandidates", "", node)
	// the whole history: every diff below the STORED snapshot count, by diff and by epoch
	cnt, _ := w.rawInt("snapshotCount")
	epoch, _ := w.rawInt("snapshotEpoch")
	for d := int64(0); d < cnt && d < 64; d++ {
		f.list("snapshot", strconv.FormatInt(d, 10), node, d)
		f.list("snapshotByEpoch", strconv.FormatInt(epoch-d, 10), node, epoch-d)
	}
	// one step outside the ring must be refused
	if _, ok := w.call("snapshot", cnt); ok && !w.skip["snapshot"] {
		f.add("snapshot", strconv.FormatInt(cnt, 10), "ANSWERS")
	}
	// the structured node lists (empty for a contract that was never fed through addNode)
	f.list("listCandidates", "", itemStr)
	f.list("listNodes", "", itemStr)
	for d := int64(0); d < cnt && d < 64 && !w.skip["listNodes"]; d++ {
		f.list("listNodes", strconv.FormatInt(epoch-d, 10), itemStr, epoch-d)
	}
	f.list("listConfig", "", func(it stackitem.Item) string {
		k, _ := arr(it)[0].TryBytes()
		v, _ := arr(it)[1].TryBytes()
		if w.dump != nil {
			return string(k) + "=x" + hex.EncodeToString(v)
		}
		return string(k) + "=" + string(v)
	})
	names := uCfg
	if w.dump != nil {
		names = w.dump.ids["cfg"]
	}
	for _, n := range names {
		if it, ok := w.call("config", []byte(n)); ok && it.Type() != stackitem.AnyT {
			b, _ := it.TryBytes()
			if w.dump != nil {
				f.add("config", n, "x"+hex.EncodeToString(b))
			} else {
				f.add("config", n, string(b))
			}
		}
	}
}

func (w *world) probeNNS(f *facts) {
	names := uNames
	accs := uAccounts
	accArg := func(a string) []byte { return w.addr(a) }
	accName := w.accName
	if w.dump != nil {
		names, accs = w.dump.ids["name"], w.dump.ids["acc"]
		accArg = func(a string) []byte { b, _ := hex.DecodeString(a); return b }
		accName = func(b []byte) string { return hex.EncodeToString(b) }
	}
	str := func(it stackitem.Item) string { b, _ := it.TryBytes(); return string(b) }
	f.list("tokens", "", str)
	f.list("roots", "", str)
	if it, ok := w.call("getPrice"); ok {
		n, _ := it.TryInteger()
		f.add("getPrice", "", n.String())
	}
	for _, n := range names {
		if strings.Contains(n, ".") {
			if it, ok := w.call("ownerOf", []byte(n)); ok {
				f.add("ownerOf", n, accName(chain.ItemBytes(it)))
			}
			if it, ok := w.call("properties", []byte(n)); ok {
				m, _ := it.Value().([]stackitem.MapElement)
				exp, adm := "", ""
				for _, e := range m {
					k, _ := e.Key.TryBytes()
					switch string(k) {
					case "expiration":
						x, _ := e.Value.TryInteger()
						exp = expName(x)
					case "admin":
						adm = accName(chain.ItemBytes(e.Value))
					}
				}
				f.add("properties", n, exp+"|"+adm)
			}
		}
		if !strings.Contains(n, ".") {
			continue // the record getters refuse a TLD since 0.18 (by design): not comparable
		}
		for _, typ := range []int{1, 16} {
			if it, ok := w.call("getRecords", n, typ); ok {
				for _, r := range arr(it) {
					f.add("getRecords", n+":"+strconv.Itoa(typ), str(r))
				}
			}
		}
		if it, ok := w.call("getAllRecords", n); ok {
			for _, r := range arr(it) {
				if rf := arr(r); len(rf) == 4 {
					typ, _ := rf[1].TryInteger()
					id, _ := rf[3].TryInteger()
					f.add("getAllRecords", n, typ.String()+":"+id.String()+":"+str(rf[2]))
				}
			}
		}
		if it, ok := w.call("resolve", n, 16); ok {
			for _, r := range arr(it) {
				f.add("resolve", n, str(r))
			}
		}
	}
	// NEP-11 accounting: top-level domains stop being tokens in 0.18 (by design), so these answers are
	// informational for C16 (the Spec models them, the property does not judge them)
	if it, ok := w.call("totalSupply"); ok {
		n, _ := it.TryInteger()
		f.inf("totalSupply", "", n.String())
	}
	for _, a := range accs {
		if it, ok := w.call("balanceOf", accArg(a)); ok {
			n, _ := it.TryInteger()
			if n.Sign() != 0 {
				f.inf("balanceOf", a, n.String())
			}
		}
		if it, ok := w.call("tokensOf", accArg(a)); ok {
			for _, tkn := range arr(it) {
				s := str(tkn)
				if strings.Contains(s, ".") {
					f.add("tokensOf", a, s)
				} else {
					f.inf("tokensOf", a, s)
				}
			}
		}
	}
}

func sha256sum(b []byte) string {
	h := sha256.Sum256(b)
	return hex.EncodeToString(h[:8])
}

func printable(b []byte) string {
	for _, c := range b {
		if c < 0x20 || c > 0x7e {
			return "x" + sha256sum(b)
		}
	}
	return string(b)
}
