package access

import (
	"crypto/sha256"
	"encoding/json"
	"fmt"
	"math"

	"github.com/nspcc-dev/neo-go/pkg/neotest"
	"github.com/nspcc-dev/neo-go/pkg/smartcontract"
	"github.com/nspcc-dev/neo-go/pkg/smartcontract/manifest"
	"github.com/nspcc-dev/neo-go/pkg/util"
	"github.com/nspcc-dev/neo-go/pkg/vm/stackitem"
	"github.com/stretchr/testify/require"

	"verif/harness/chain"
)

// The canonical scenario of every mutating method: a pre-state on which the call succeeds
// with the right witnesses, and the argument vector. setup(w, k) builds instance number k
// (a fresh one is built whenever the previous one has been consumed by a call that went
// through), using ordinary, correctly witnessed transactions.
//
// Keys are "<contract>.<method>/<arity>/<variant>", the same as in Access!Methods.

type atoms = map[string]neotest.Signer

func plain(h util.Uint160, m string, at atoms, args ...any) *fixture {
	return &fixture{target: h, method: m, args: args, atoms: at}
}

const year = int64(365 * 24 * 3600)

// nnsDomain registers <label><k>.neofs for a fresh OWNER with a fresh ADMIN.
func nnsDomain(w *world, label string, k int) (string, atoms) {
	owner := w.newAcc("nnsowner", 100_0000_0000)
	admin := w.newAcc("nnsadmin", 100_0000_0000)
	name := fmt.Sprintf("%s%d.neofs", label, w.seq) // w.seq: unique over all rows that share the scenario
	nns := w.h["nns"]
	w.must(nns, []neotest.Signer{owner}, "register", name, owner.ScriptHash(), "ops@nspcc.io", int64(3600), int64(600), year, int64(3600))
	w.must(nns, []neotest.Signer{owner, admin}, "setAdmin", name, admin.ScriptHash())
	return name, atoms{"OWNER": owner, "ADMIN": admin, "KEY": w.newAcc("nnskey", 100_0000_0000)}
}

// newContainer puts a container owned by a fresh account (by the Alphabet).
func newContainer(w *world, k int, meta bool) ([]byte, neotest.Signer) {
	owner := w.newAcc("cnrowner", 10_0000_0000)
	w.must(w.h["balance"], w.alpha(), "mint", owner.ScriptHash(), int64(1_000_000), []byte("m"))
	cnr := containerBlob(owner.ScriptHash(), 1000+k*7+w.seq)
	cid := sha256.Sum256(cnr)
	w.must(w.h["container"], w.alpha(), "put", cnr, make([]byte, 64), chain.Pub(owner), []byte{}, meta)
	return cid[:], owner
}

func fundedOwner(w *world) neotest.Signer {
	owner := w.newAcc("holder", 10_0000_0000)
	w.must(w.h["balance"], w.alpha(), "mint", owner.ScriptHash(), int64(1_000_000), []byte("m"))
	return owner
}

// update: a separate deployment of the contract compiled from the same sources with the
// version constant lowered by one is updated to the contract compiled from the working tree.
func updateFixture(name string) *tableEntry {
	return &tableEntry{setup: func(w *world, k int) *fixture {
		w.seq++
		mname := fmt.Sprintf("%s #%d", w.old[name].Manifest.Name, w.seq)
		args := w.deployArgs(name)
		if name == "nns" {
			args = nil
		}
		h := w.deploy(renamed(w.old[name], mname), args)
		mb, err := json.Marshal(renamed(w.cur[name], mname).Manifest)
		require.NoError(w.t, err)
		nb, err := w.cur[name].NEF.Bytes()
		require.NoError(w.t, err)
		return plain(h, "update", atoms{}, nb, mb, nil)
	}}
}

// callback: direct invocation unless the descriptor says the call arrives through a native transfer
func callbackFixture(name string, amount int64) *tableEntry {
	return &tableEntry{setup: func(w *world, k int) *fixture {
		key := w.newAcc("payer", 100_0000_0000)
		w.c.FundNEO(key.ScriptHash(), 10)
		fx := plain(w.h[name], "onNEP17Payment", atoms{"KEY": key}, key.ScriptHash(), amount, nil)
		fx.call = func(set map[string]bool) (util.Uint160, string, []any) {
			switch {
			case set["VIAGAS"]:
				return w.gas, "transfer", []any{key.ScriptHash(), w.h[name], amount, nil}
			case set["VIANEO"]:
				return w.neo, "transfer", []any{key.ScriptHash(), w.h[name], int64(1), nil}
			}
			return fx.target, fx.method, fx.args
		}
		return fx
	}}
}

var fixtures = map[string]*tableEntry{}

func reg(key string, setup func(w *world, k int) *fixture) {
	fixtures[key] = &tableEntry{setup: setup}
}

func init() {
	for _, name := range contractNames {
		fixtures[name+".update/3/"] = updateFixture(name)
	}
	// ---------------- alphabet ----------------
	reg("alphabet.emit/0/", func(w *world, k int) *fixture {
		w.c.FundGAS(w.h["alphabet"], 10_0000_0000)
		return plain(w.h["alphabet"], "emit", atoms{"KEY": w.c.Members[w.alphaIdx]})
	})
	reg("alphabet.vote/2/", func(w *world, k int) *fixture {
		st, err := w.c.Call(w.h["netmap"], "epoch")
		require.NoError(w.t, err)
		return plain(w.h["alphabet"], "vote", atoms{}, chain.ItemBig(st[0]).Int64(), []any{w.cands[k%len(w.cands)]})
	})
	fixtures["alphabet.onNEP17Payment/3/"] = callbackFixture("alphabet", 1_0000_0000)
	fixtures["neofs.onNEP17Payment/3/"] = callbackFixture("neofs", 1_0000_0000)
	fixtures["processing.onNEP17Payment/3/"] = callbackFixture("processing", 1_0000_0000)
	fixtures["proxy.onNEP17Payment/3/"] = callbackFixture("proxy", 1_0000_0000)
	// ---------------- audit ----------------
	reg("audit.put/1/", func(w *world, k int) *fixture {
		return plain(w.h["audit"], "put", atoms{"KEY": w.ir[0]}, auditBlob(uint64(100+k), w.sample.cid, chain.Pub(w.ir[0])))
	})
	// the result names the LAST designated key: another Inner Ring member's witness must not be enough (eighth batch, C03f)
	reg("audit.put/1/other", func(w *world, k int) *fixture {
		key := w.ir[len(w.ir)-1]
		return plain(w.h["audit"], "put", atoms{"KEY": key}, auditBlob(uint64(300+k), w.sample.cid, chain.Pub(key)))
	})
	reg("audit.put/1/outsider", func(w *world, k int) *fixture {
		key := w.newAcc("auditor", 10_0000_0000)
		return plain(w.h["audit"], "put", atoms{"KEY": key}, auditBlob(uint64(200+k), w.sample.cid, chain.Pub(key)))
	})
	// ---------------- balance ----------------
	reg("balance.transfer/4/", func(w *world, k int) *fixture {
		o := fundedOwner(w)
		return plain(w.h["balance"], "transfer", atoms{"KEY": o}, o.ScriptHash(), w.sample.owner.ScriptHash(), int64(10), nil)
	})
	// boundary value: amount 0 must need the same witnesses (seeded change C03-zero-amount-skips-witness)
	reg("balance.transfer/4/zero", func(w *world, k int) *fixture {
		o := fundedOwner(w)
		return plain(w.h["balance"], "transfer", atoms{"KEY": o}, o.ScriptHash(), w.sample.owner.ScriptHash(), int64(0), nil)
	})
	reg("balance.transferX/4/zero", func(w *world, k int) *fixture {
		o := fundedOwner(w)
		return plain(w.h["balance"], "transferX", atoms{"KEY": o}, o.ScriptHash(), w.sample.owner.ScriptHash(), int64(0), []byte("x"))
	})
	reg("balance.lock/5/zero", func(w *world, k int) *fixture {
		o := fundedOwner(w)
		la := w.newAcc("lockacc0", 0)
		return plain(w.h["balance"], "lock", atoms{"KEY": o}, []byte("tx0"), o.ScriptHash(), la.ScriptHash(), int64(0), int64(100))
	})
	reg("balance.mint/3/zero", func(w *world, k int) *fixture {
		o := w.newAcc("mintee0", 0)
		return plain(w.h["balance"], "mint", atoms{"KEY": o}, o.ScriptHash(), int64(0), []byte("m"))
	})
	reg("balance.burn/3/zero", func(w *world, k int) *fixture {
		o := fundedOwner(w)
		return plain(w.h["balance"], "burn", atoms{"KEY": o}, o.ScriptHash(), int64(0), []byte("b"))
	})
	reg("balance.transfer/4/via", func(w *world, k int) *fixture {
		w.must(w.h["balance"], w.alpha(), "mint", w.kc, int64(1000), []byte("m"))
		fx := plain(w.h["balance"], "transfer", atoms{"KEY": w.newAcc("bystander", 10_0000_0000)}, w.kc, w.sample.owner.ScriptHash(), int64(10), nil)
		fx.call = func(set map[string]bool) (util.Uint160, string, []any) {
			if set["VIACALLER"] {
				return w.kc, "transfer", []any{w.h["balance"], w.kc.BytesBE(), w.sample.owner.ScriptHash().BytesBE(), int64(10)}
			}
			return fx.target, fx.method, fx.args
		}
		return fx
	})
	reg("balance.transfer/4/via-victim", func(w *world, k int) *fixture {
		o := fundedOwner(w)
		fx := plain(w.h["balance"], "transfer", atoms{"KEY": o}, o.ScriptHash(), w.sample.owner.ScriptHash(), int64(10), nil)
		fx.call = func(set map[string]bool) (util.Uint160, string, []any) {
			if set["VIACALLER"] {
				return w.kc, "transfer", []any{w.h["balance"], o.ScriptHash().BytesBE(), w.sample.owner.ScriptHash().BytesBE(), int64(10)}
			}
			return fx.target, fx.method, fx.args
		}
		return fx
	})
	reg("balance.transferX/4/", func(w *world, k int) *fixture {
		o := fundedOwner(w)
		return plain(w.h["balance"], "transferX", atoms{"KEY": o}, o.ScriptHash(), w.sample.owner.ScriptHash(), int64(10), []byte("x"))
	})
	reg("balance.lock/5/", func(w *world, k int) *fixture {
		o := fundedOwner(w)
		return plain(w.h["balance"], "lock", atoms{"KEY": o}, []byte("tx"), o.ScriptHash(), util.Uint160(hashOf(fmt.Sprintf("lock%d", w.seq))), int64(5), int64(1000))
	})
	reg("balance.mint/3/", func(w *world, k int) *fixture {
		o := w.newAcc("mintee", 10_0000_0000)
		return plain(w.h["balance"], "mint", atoms{"KEY": o}, o.ScriptHash(), int64(50), []byte("d"))
	})
	reg("balance.burn/3/", func(w *world, k int) *fixture {
		o := fundedOwner(w)
		return plain(w.h["balance"], "burn", atoms{"KEY": o}, o.ScriptHash(), int64(10), []byte("d"))
	})
	reg("balance.newEpoch/1/", func(w *world, k int) *fixture {
		o := fundedOwner(w) // an expired lock makes the tick visible
		w.must(w.h["balance"], w.alpha(), "lock", []byte("tx"), o.ScriptHash(), util.Uint160(hashOf(fmt.Sprintf("elock%d", w.seq))), int64(5), int64(1))
		return plain(w.h["balance"], "newEpoch", atoms{"KEY": o}, int64(5))
	})
	// ---------------- container ----------------
	putFx := func(arity int) func(w *world, k int) *fixture {
		return func(w *world, k int) *fixture {
			o := fundedOwner(w)
			cnr := containerBlob(o.ScriptHash(), 5000+w.seq)
			args := []any{cnr, make([]byte, 64), chain.Pub(o), []byte{}}
			m := "put"
			switch arity {
			case 5:
				args = append(args, true)
			case 6:
				m = "putNamed"
				args = append(args, fmt.Sprintf("cnr%d", w.seq), "")
			}
			return plain(w.h["container"], m, atoms{"KEY": o}, args...)
		}
	}
	reg("container.put/4/", putFx(4))
	reg("container.put/5/", putFx(5))
	reg("container.putNamed/6/", putFx(6))
	reg("container.delete/3/", func(w *world, k int) *fixture {
		cid, o := newContainer(w, k, false)
		return plain(w.h["container"], "delete", atoms{"KEY": o}, cid, make([]byte, 64), []byte{})
	})
	reg("container.setEACL/4/", func(w *world, k int) *fixture {
		cid, o := newContainer(w, k, false)
		return plain(w.h["container"], "setEACL", atoms{"KEY": o}, eaclBlob(cid, k), make([]byte, 64), chain.Pub(o), []byte{})
	})
	reg("container.addNextEpochNodes/3/", func(w *world, k int) *fixture {
		w.seq++
		return plain(w.h["container"], "addNextEpochNodes", atoms{}, det("cidA", w.seq, 32), int64(0), []any{chain.Pub(w.node0)})
	})
	reg("container.commitContainerListUpdate/2/", func(w *world, k int) *fixture {
		w.seq++
		cid := det("cidC", w.seq, 32)
		w.must(w.h["container"], w.alpha(), "addNextEpochNodes", cid, int64(0), []any{chain.Pub(w.node0)})
		return plain(w.h["container"], "commitContainerListUpdate", atoms{}, cid, []byte{1})
	})
	reg("container.newEpoch/1/", func(w *world, k int) *fixture {
		// an estimation old enough to be removed by the tick
		w.seq++
		e := int64(10 + w.seq)
		w.must(w.h["container"], []neotest.Signer{w.node0}, "putContainerSize", e, w.sample.cid, int64(5), chain.Pub(w.node0))
		return plain(w.h["container"], "newEpoch", atoms{}, e+10)
	})
	reg("container.startContainerEstimation/1/", func(w *world, k int) *fixture {
		return plain(w.h["container"], "startContainerEstimation", atoms{}, int64(k))
	})
	reg("container.stopContainerEstimation/1/", func(w *world, k int) *fixture {
		return plain(w.h["container"], "stopContainerEstimation", atoms{}, int64(k))
	})
	reg("container.putContainerSize/4/", func(w *world, k int) *fixture {
		w.seq++
		return plain(w.h["container"], "putContainerSize", atoms{"KEY": w.node0}, int64(1000+w.seq), w.sample.cid, int64(k), chain.Pub(w.node0))
	})
	reg("container.putContainerSize/4/outsider", func(w *world, k int) *fixture {
		key := w.newAcc("outsider", 10_0000_0000)
		return plain(w.h["container"], "putContainerSize", atoms{"KEY": key}, int64(2000+w.seq), w.sample.cid, int64(k), chain.Pub(key))
	})
	reg("container.submitObjectPut/2/", func(w *world, k int) *fixture {
		cid, _ := newContainer(w, k, true)
		node := chain.DetKey(int64(w.seq), "placement-node")
		w.must(w.h["container"], w.alpha(), "addNextEpochNodes", cid, int64(0), []any{node.PublicKey().Bytes()})
		w.must(w.h["container"], w.alpha(), "commitContainerListUpdate", cid, []byte{1})
		meta := stackitem.NewMapWithValue([]stackitem.MapElement{
			{Key: stackitem.Make("network"), Value: stackitem.Make(int64(w.c.E.Chain.GetConfig().Magic))},
			{Key: stackitem.Make("cid"), Value: stackitem.Make(cid)},
			{Key: stackitem.Make("oid"), Value: stackitem.Make(det("oid", w.seq, 32))},
			{Key: stackitem.Make("size"), Value: stackitem.Make(123)},
			{Key: stackitem.Make("deleted"), Value: stackitem.Make([]any{})},
			{Key: stackitem.Make("locked"), Value: stackitem.Make([]any{})},
			{Key: stackitem.Make("validuntil"), Value: stackitem.Make(math.MaxInt32)},
		})
		raw, err := stackitem.Serialize(meta)
		require.NoError(w.t, err)
		good := []any{[]any{node.Sign(raw)}}
		bad := []any{[]any{chain.DetKey(int64(w.seq), "not-a-node").Sign(raw)}}
		fx := plain(w.h["container"], "submitObjectPut", atoms{}, raw, bad)
		fx.call = func(set map[string]bool) (util.Uint160, string, []any) {
			if set["ARGSIG"] {
				return fx.target, fx.method, []any{raw, good}
			}
			return fx.target, fx.method, []any{raw, bad}
		}
		return fx
	})
	reg("container.onNEP11Payment/4/", func(w *world, k int) *fixture {
		return plain(w.h["container"], "onNEP11Payment", atoms{}, w.stranger.ScriptHash(), int64(1), []byte("token"), nil)
	})
	// ---------------- neofs ----------------
	for _, mode := range []string{"", "votes"} {
		nf := "neofs"
		if mode != "" {
			nf = "neofs#" + mode
		}
		reg("neofs.alphabetUpdate/2/"+mode, func(w *world, k int) *fixture {
			// the same keys in a rotated order: the stored list changes, the multi-signature account does not
			n := len(w.c.Privs)
			ks := make([]any, n)
			for i := range ks {
				ks[i] = w.c.Privs[(i+k)%n].PublicKey().Bytes()
			}
			return plain(w.h[nf], "alphabetUpdate", atoms{}, []byte(fmt.Sprintf("au%d", k)), ks)
		})
		reg("neofs.cheque/4/"+mode, func(w *world, k int) *fixture {
			u := w.newAcc("chequee", 10_0000_0000)
			return plain(w.h[nf], "cheque", atoms{"KEY": u}, []byte(fmt.Sprintf("cheque%d", w.seq)), u.ScriptHash(), int64(1_0000), []byte("lock"))
		})
		reg("neofs.innerRingCandidateRemove/1/"+mode, func(w *world, k int) *fixture {
			u := w.newAcc("candidate", 10_0000_0000)
			w.must(w.h[nf], []neotest.Signer{u}, "innerRingCandidateAdd", chain.Pub(u))
			return plain(w.h[nf], "innerRingCandidateRemove", atoms{"KEY": u}, chain.Pub(u))
		})
		reg("neofs.setConfig/3/"+mode, func(w *world, k int) *fixture {
			return plain(w.h[nf], "setConfig", atoms{}, []byte(fmt.Sprintf("sc%d", k)), []byte("SomeKey"), []byte(fmt.Sprintf("v%d", k)))
		})
		reg("neofs.withdraw/2/"+mode, func(w *world, k int) *fixture {
			u := w.newAcc("withdrawer", 10_0000_0000)
			return plain(w.h[nf], "withdraw", atoms{"KEY": u}, u.ScriptHash(), int64(5))
		})
	}
	bindFx := func(m string) func(w *world, k int) *fixture {
		return func(w *world, k int) *fixture {
			u := w.newAcc("binder", 10_0000_0000)
			return plain(w.h["neofs"], m, atoms{"KEY": u}, u.ScriptHash(), []any{chain.Pub(u)})
		}
	}
	reg("neofs.bind/2/", bindFx("bind"))
	reg("neofs.unbind/2/", bindFx("unbind"))
	reg("neofs.innerRingCandidateAdd/1/", func(w *world, k int) *fixture {
		u := w.newAcc("candidate", 10_0000_0000)
		return plain(w.h["neofs"], "innerRingCandidateAdd", atoms{"KEY": u}, chain.Pub(u))
	})
	// ---------------- neofsid ----------------
	reg("neofsid.addKey/2/", func(w *world, k int) *fixture {
		w.seq++
		return plain(w.h["neofsid"], "addKey", atoms{}, ownerID(util.Uint160(hashOf(fmt.Sprintf("idowner%d", w.seq)))), []any{chain.Pub(w.node0)})
	})
	reg("neofsid.removeKey/2/", func(w *world, k int) *fixture {
		w.seq++
		o := ownerID(util.Uint160(hashOf(fmt.Sprintf("idowner%d", w.seq))))
		w.must(w.h["neofsid"], w.alpha(), "addKey", o, []any{chain.Pub(w.node0)})
		return plain(w.h["neofsid"], "removeKey", atoms{}, o, []any{chain.Pub(w.node0)})
	})
	// ---------------- netmap ----------------
	reg("netmap.addNode/1/", func(w *world, k int) *fixture {
		nd := w.newAcc("node", 10_0000_0000)
		return plain(w.h["netmap"], "addNode", atoms{"KEY": nd}, node2(chain.Pub(nd), k, 1))
	})
	reg("netmap.addPeer/1/", func(w *world, k int) *fixture {
		nd := w.newAcc("node", 10_0000_0000)
		return plain(w.h["netmap"], "addPeer", atoms{"KEY": nd}, nodeBlob(chain.Pub(nd), k))
	})
	reg("netmap.addPeerIR/1/", func(w *world, k int) *fixture {
		nd := w.newAcc("node", 10_0000_0000)
		return plain(w.h["netmap"], "addPeerIR", atoms{}, nodeBlob(chain.Pub(nd), k))
	})
	candidate := func(w *world, k int) neotest.Signer {
		nd := w.newAcc("node", 10_0000_0000)
		w.must(w.h["netmap"], w.alpha(), "addPeerIR", nodeBlob(chain.Pub(nd), k))
		return nd
	}
	reg("netmap.deleteNode/1/", func(w *world, k int) *fixture {
		return plain(w.h["netmap"], "deleteNode", atoms{}, chain.Pub(candidate(w, k)))
	})
	reg("netmap.updateState/2/", func(w *world, k int) *fixture {
		nd := candidate(w, k)
		return plain(w.h["netmap"], "updateState", atoms{"KEY": nd}, int64(3), chain.Pub(nd))
	})
	reg("netmap.updateStateIR/2/", func(w *world, k int) *fixture {
		return plain(w.h["netmap"], "updateStateIR", atoms{}, int64(3), chain.Pub(candidate(w, k)))
	})
	reg("netmap.lastEpochBlock/0/", func(w *world, k int) *fixture {
		return plain(w.h["netmap"], "lastEpochBlock", atoms{})
	})
	reg("netmap.newEpoch/1/", func(w *world, k int) *fixture {
		st, err := w.c.Call(w.h["netmap"], "epoch")
		require.NoError(w.t, err)
		return plain(w.h["netmap"], "newEpoch", atoms{}, chain.ItemBig(st[0]).Int64()+1)
	})
	reg("netmap.setConfig/3/", func(w *world, k int) *fixture {
		return plain(w.h["netmap"], "setConfig", atoms{}, []byte("id"), []byte("SomeKey"), []byte(fmt.Sprintf("v%d", k)))
	})
	reg("netmap.subscribeForNewEpoch/1/", func(w *world, k int) *fixture {
		w.seq++
		h := w.deploy(renamed(w.sub, fmt.Sprintf("%s #%d", w.sub.Manifest.Name, w.seq)), nil)
		return plain(w.h["netmap"], "subscribeForNewEpoch", atoms{}, h)
	})
	reg("netmap.updateSnapshotCount/1/", func(w *world, k int) *fixture {
		cnt := int64(0)
		for key, v := range w.c.Storage(w.h["netmap"]) {
			if key == fmt.Sprintf("%x", "snapshotCount") {
				for i := len(v) - 1; i >= 0; i-- {
					cnt = cnt<<8 | int64(v[i])
				}
			}
		}
		require.NotZero(w.t, cnt)
		return plain(w.h["netmap"], "updateSnapshotCount", atoms{}, cnt+1)
	})
	// ---------------- nns ----------------
	reg("nns.addRecord/3/", func(w *world, k int) *fixture {
		name, at := nnsDomain(w, "ar", k)
		return plain(w.h["nns"], "addRecord", at, name, int64(16), fmt.Sprintf("text %d", k))
	})
	reg("nns.deleteRecords/2/", func(w *world, k int) *fixture {
		name, at := nnsDomain(w, "dr", k)
		w.must(w.h["nns"], []neotest.Signer{at["OWNER"]}, "addRecord", name, int64(16), "to be deleted")
		return plain(w.h["nns"], "deleteRecords", at, name, int64(16))
	})
	reg("nns.setRecord/4/", func(w *world, k int) *fixture {
		name, at := nnsDomain(w, "sr", k)
		w.must(w.h["nns"], []neotest.Signer{at["OWNER"]}, "addRecord", name, int64(16), "old")
		return plain(w.h["nns"], "setRecord", at, name, int64(16), int64(0), fmt.Sprintf("new %d", k))
	})
	reg("nns.register/7/", func(w *world, k int) *fixture {
		u := w.newAcc("registrant", 100_0000_0000)
		return plain(w.h["nns"], "register", atoms{"KEY": u}, fmt.Sprintf("reg%d.neofs", w.seq), u.ScriptHash(), "ops@nspcc.io",
			int64(3600), int64(600), year, int64(3600))
	})
	reg("nns.register/7/sub", func(w *world, k int) *fixture {
		name, at := nnsDomain(w, "par", k)
		return plain(w.h["nns"], "register", at, "sub."+name, at["KEY"].ScriptHash(), "ops@nspcc.io", int64(3600), int64(600), year, int64(3600))
	})
	reg("nns.register/7/tld", func(w *world, k int) *fixture {
		u := w.newAcc("registrant", 100_0000_0000)
		return plain(w.h["nns"], "register", atoms{"KEY": u}, fmt.Sprintf("tldx%s", letters(w.seq)), u.ScriptHash(), "ops@nspcc.io",
			int64(3600), int64(600), year, int64(3600))
	})
	reg("nns.registerTLD/6/", func(w *world, k int) *fixture {
		w.seq++
		return plain(w.h["nns"], "registerTLD", atoms{}, "tld"+letters(w.seq), "ops@nspcc.io", int64(3600), int64(600), year, int64(3600))
	})
	reg("nns.renew/2/", func(w *world, k int) *fixture {
		name, at := nnsDomain(w, "rn", k)
		return plain(w.h["nns"], "renew", at, name, int64(2))
	})
	reg("nns.renew/1/", func(w *world, k int) *fixture {
		name, at := nnsDomain(w, "rd", k)
		return plain(w.h["nns"], "renew", at, name)
	})
	reg("nns.renew/2/tld", func(w *world, k int) *fixture {
		return plain(w.h["nns"], "renew", atoms{}, "neofs", int64(1))
	})
	reg("nns.setAdmin/2/", func(w *world, k int) *fixture {
		name, at := nnsDomain(w, "sa", k)
		return plain(w.h["nns"], "setAdmin", at, name, at["KEY"].ScriptHash())
	})
	reg("nns.setPrice/1/", func(w *world, k int) *fixture {
		return plain(w.h["nns"], "setPrice", atoms{}, int64(10_0000_0000+k))
	})
	reg("nns.transfer/3/", func(w *world, k int) *fixture {
		name, at := nnsDomain(w, "tr", k)
		return plain(w.h["nns"], "transfer", at, at["KEY"].ScriptHash(), []byte(name), nil)
	})
	reg("nns.updateSOA/6/", func(w *world, k int) *fixture {
		name, at := nnsDomain(w, "soa", k)
		return plain(w.h["nns"], "updateSOA", at, name, fmt.Sprintf("mail%d@nspcc.io", k), int64(3601), int64(601), year, int64(3601))
	})
	reg("nns.updateSOA/6/tld", func(w *world, k int) *fixture {
		return plain(w.h["nns"], "updateSOA", atoms{}, "neofs", fmt.Sprintf("mail%d@nspcc.io", k), int64(3601), int64(601), 10*year, int64(3601))
	})
	// ---------------- reputation ----------------
	reg("reputation.put/3/", func(w *world, k int) *fixture {
		return plain(w.h["reputation"], "put", atoms{}, int64(10+k), w.sample.peer, []byte(fmt.Sprintf("trust%d", k)))
	})
	reg("reputation.version/0/", func(w *world, k int) *fixture {
		return plain(w.h["reputation"], "version", atoms{})
	})
}

func hashOf(s string) [20]byte {
	h := sha256.Sum256([]byte(s))
	var o [20]byte
	copy(o[:], h[:20])
	return o
}

func letters(n int) string {
	s := ""
	for {
		s += string(rune('a' + n%26))
		n /= 26
		if n == 0 {
			return s
		}
	}
}

// ---- safe methods: arguments by parameter type, with the sample data of the chain ----

func (w *world) safeEntry(c Cell) *tableEntry {
	var md *manifest.Method
	for i, m := range w.cur[c.C].Manifest.ABI.Methods {
		if m.Name == c.M && len(m.Parameters) == c.A {
			md = &w.cur[c.C].Manifest.ABI.Methods[i]
		}
	}
	if md == nil {
		return nil
	}
	args := make([]any, len(md.Parameters))
	for i, p := range md.Parameters {
		switch p.Type {
		case smartcontract.IntegerType:
			args[i] = w.sample.epoch
		case smartcontract.Hash160Type:
			args[i] = w.sample.owner.ScriptHash()
		case smartcontract.Hash256Type:
			args[i] = w.sample.cid
		case smartcontract.PublicKeyType:
			args[i] = chain.Pub(w.ir[0])
		case smartcontract.StringType:
			args[i] = w.sample.name
		case smartcontract.ArrayType:
			args[i] = []any{}
		case smartcontract.BoolType:
			args[i] = true
		default:
			args[i] = w.sample.cid
		}
	}
	if c.V == "edge" { // negative numbers, empty byte strings / strings / lists, the zero hash
		for i, p := range md.Parameters {
			switch p.Type {
			case smartcontract.IntegerType:
				args[i] = int64(-1)
			case smartcontract.Hash160Type:
				args[i] = util.Uint160{}
			case smartcontract.StringType:
				args[i] = ""
			case smartcontract.ArrayType:
				args[i] = []any{}
			case smartcontract.BoolType:
				args[i] = false
			default:
				args[i] = []byte{}
			}
		}
		h := w.h[c.C]
		return &tableEntry{setup: func(w *world, k int) *fixture { return plain(h, c.M, atoms{}, args...) }}
	}
	// arguments that reach the populated state
	switch c.C + "." + c.M {
	case "audit.get":
		args[0] = w.sample.auditID
	case "container.list", "container.containersOf", "neofsid.key":
		args[0] = w.sample.ownerID
	case "container.nodes":
		args[1] = int64(0)
	case "container.getContainerSize":
		args[0] = append([]byte("cnr\x02"), w.sample.cid...)
	case "container.verifyPlacementSignatures":
		args[1] = []byte("msg")
		args[2] = []any{[]any{make([]byte, 64)}}
	case "neofs.config", "netmap.config":
		args[0] = []byte("ContainerFee")
	case "netmap.snapshot":
		args[0] = int64(1)
	case "nns.ownerOf", "nns.properties":
		args[0] = []byte(w.sample.name)
	case "nns.getRecords", "nns.resolve":
		args[1] = int64(16)
	case "reputation.get":
		args[1] = w.sample.peer
	case "reputation.getByID":
		args[0] = append([]byte{2}, w.sample.peer...)
	}
	h := w.h[c.C]
	return &tableEntry{setup: func(w *world, k int) *fixture { return plain(h, c.M, atoms{}, args...) }}
}

// ---- argument variants (inert-only rows Access!ArgVariants): the canonical scenario of a method with one
// argument replaced by a null / empty / zero / negative / self-referential value ----

func variant(key, base string, mod func(w *world, fx *fixture)) {
	fixtures[key] = &tableEntry{setup: func(w *world, k int) *fixture {
		fx := fixtures[base].setup(w, k)
		mod(w, fx)
		return fx
	}}
}

func setArg(i int, v any) func(w *world, fx *fixture) {
	return func(w *world, fx *fixture) { fx.args[i] = v }
}

func init() {
	for _, name := range contractNames {
		variant(name+".update/3/data", name+".update/3/", setArg(2, []any{int64(7), []byte("extra")}))
	}
	// alphabet
	variant("alphabet.vote/2/empty", "alphabet.vote/2/", setArg(1, []any{}))
	variant("alphabet.vote/2/negepoch", "alphabet.vote/2/", setArg(0, int64(-1)))
	fixtures["alphabet.onNEP17Payment/3/zero"] = callbackFixture("alphabet", 0)
	fixtures["proxy.onNEP17Payment/3/zero"] = callbackFixture("proxy", 0)
	fixtures["processing.onNEP17Payment/3/zero"] = callbackFixture("processing", 0)
	fixtures["neofs.onNEP17Payment/3/zero"] = callbackFixture("neofs", 0)
	reg("neofs.onNEP17Payment/3/ignore", func(w *world, k int) *fixture {
		key := w.newAcc("payer", 100_0000_0000)
		marker := []byte("\x57\x0b")
		fx := plain(w.h["neofs"], "onNEP17Payment", atoms{"KEY": key}, key.ScriptHash(), int64(1_0000_0000), marker)
		fx.call = func(set map[string]bool) (util.Uint160, string, []any) {
			if set["VIAGAS"] {
				return w.gas, "transfer", []any{key.ScriptHash(), w.h["neofs"], int64(1_0000_0000), marker}
			}
			return fx.target, fx.method, fx.args
		}
		return fx
	})
	// balance
	self := func(from, to int) func(w *world, fx *fixture) {
		return func(w *world, fx *fixture) { fx.args[to] = fx.args[from] }
	}
	variant("balance.transfer/4/data", "balance.transfer/4/", setArg(3, []byte("some data")))
	variant("balance.transfer/4/neg", "balance.transfer/4/", setArg(2, int64(-5)))
	variant("balance.transfer/4/self", "balance.transfer/4/", self(0, 1))
	variant("balance.transferX/4/nodetails", "balance.transferX/4/", setArg(3, nil))
	variant("balance.transferX/4/neg", "balance.transferX/4/", setArg(2, int64(-5)))
	variant("balance.transferX/4/self", "balance.transferX/4/", self(0, 1))
	variant("balance.lock/5/neg", "balance.lock/5/", setArg(3, int64(-5)))
	variant("balance.lock/5/self", "balance.lock/5/", self(1, 2))
	variant("balance.lock/5/neguntil", "balance.lock/5/", setArg(4, int64(-1)))
	variant("balance.mint/3/neg", "balance.mint/3/", setArg(1, int64(-5)))
	variant("balance.mint/3/nodetails", "balance.mint/3/", setArg(2, nil))
	variant("balance.burn/3/neg", "balance.burn/3/", setArg(1, int64(-5)))
	variant("balance.burn/3/nodetails", "balance.burn/3/", setArg(2, nil))
	// locks of other rows that are already due at epoch 0 (lock/neguntil) are released beforehand, so that the
	// tick of the variant has nothing to do whichever rows ran before (sampling)
	early := func(e int64) func(w *world, fx *fixture) {
		return func(w *world, fx *fixture) {
			w.must(w.h["balance"], w.alpha(), "newEpoch", int64(0))
			fx.args[0] = e
		}
	}
	variant("balance.newEpoch/1/zero", "balance.newEpoch/1/", early(0))
	variant("balance.newEpoch/1/neg", "balance.newEpoch/1/", early(-1))
	// container
	variant("container.put/4/token", "container.put/4/", setArg(3, []byte("session token")))
	reg("container.put/4/alphaowner", func(w *world, k int) *fixture {
		o := w.c.Members[0]
		w.must(w.h["balance"], w.alpha(), "mint", o.ScriptHash(), int64(1_000_000), []byte("m"))
		w.seq++
		return plain(w.h["container"], "put", atoms{}, containerBlob(o.ScriptHash(), 7000+w.seq), make([]byte, 64), chain.Pub(o), []byte{})
	})
	variant("container.put/5/nometa", "container.put/5/", setArg(4, false))
	// the same container has already been registered (by the Alphabet, without the meta flag): a repeated put
	again := func(w *world, fx *fixture) {
		w.must(w.h["container"], w.alpha(), "put", fx.args[0], fx.args[1], fx.args[2], fx.args[3])
	}
	variant("container.put/4/again", "container.put/4/", again)
	variant("container.put/5/again", "container.put/5/", again)
	variant("container.putNamed/6/againnoname", "container.putNamed/6/noname", again)
	variant("container.putNamed/6/noname", "container.putNamed/6/", setArg(4, ""))
	variant("container.putNamed/6/zone", "container.putNamed/6/", setArg(5, "container"))
	variant("container.delete/3/token", "container.delete/3/", setArg(2, []byte("session token")))
	reg("container.delete/3/missing", func(w *world, k int) *fixture {
		w.seq++
		return plain(w.h["container"], "delete", atoms{}, det("nocid", w.seq, 32), make([]byte, 64), []byte{})
	})
	variant("container.setEACL/4/token", "container.setEACL/4/", setArg(3, []byte("session token")))
	variant("container.addNextEpochNodes/3/empty", "container.addNextEpochNodes/3/", setArg(2, []any{}))
	variant("container.commitContainerListUpdate/2/noreplicas", "container.commitContainerListUpdate/2/", setArg(1, nil))
	reg("container.commitContainerListUpdate/2/nothing", func(w *world, k int) *fixture {
		w.seq++
		return plain(w.h["container"], "commitContainerListUpdate", atoms{}, det("cidN", w.seq, 32), nil)
	})
	variant("container.newEpoch/1/zero", "container.newEpoch/1/", setArg(0, int64(0)))
	variant("container.newEpoch/1/neg", "container.newEpoch/1/", setArg(0, int64(-1)))
	variant("container.startContainerEstimation/1/neg", "container.startContainerEstimation/1/", setArg(0, int64(-1)))
	variant("container.stopContainerEstimation/1/zero", "container.stopContainerEstimation/1/", setArg(0, int64(0)))
	reg("container.putContainerSize/4/zero", func(w *world, k int) *fixture {
		cid, _ := newContainer(w, k, false) // a fresh container: the (epoch 0, cid, node) entry does not exist yet
		return plain(w.h["container"], "putContainerSize", atoms{"KEY": w.node0}, int64(0), cid, int64(0), chain.Pub(w.node0))
	})
	reg("container.putContainerSize/4/neg", func(w *world, k int) *fixture {
		cid, _ := newContainer(w, k, false)
		return plain(w.h["container"], "putContainerSize", atoms{"KEY": w.node0}, int64(-1), cid, int64(-1), chain.Pub(w.node0))
	})
	variant("container.submitObjectPut/2/nosigs", "container.submitObjectPut/2/", func(w *world, fx *fixture) {
		inner := fx.call
		fx.call = func(set map[string]bool) (util.Uint160, string, []any) {
			h, m, a := inner(set)
			if !set["ARGSIG"] {
				a = []any{a[0], []any{}}
			}
			return h, m, a
		}
	})
	// neofs
	variant("neofs.alphabetUpdate/2/empty", "neofs.alphabetUpdate/2/", setArg(1, []any{}))
	variant("neofs.bind/2/empty", "neofs.bind/2/", setArg(1, []any{}))
	variant("neofs.unbind/2/empty", "neofs.unbind/2/", setArg(1, []any{}))
	variant("neofs.cheque/4/zero", "neofs.cheque/4/", setArg(2, int64(0)))
	variant("neofs.cheque/4/neg", "neofs.cheque/4/", setArg(2, int64(-1)))
	variant("neofs.cheque/4/self", "neofs.cheque/4/", func(w *world, fx *fixture) { fx.args[1] = w.h["neofs"] })
	reg("neofs.innerRingCandidateAdd/1/alphakey", func(w *world, k int) *fixture {
		m := w.c.Members[0]
		// make sure the key is not a candidate (an earlier instance may have gone through)
		w.c.Run(w.h["neofs"], []neotest.Signer{m}, "innerRingCandidateRemove", chain.Pub(m))
		return plain(w.h["neofs"], "innerRingCandidateAdd", atoms{"KEY": m}, chain.Pub(m))
	})
	reg("neofs.innerRingCandidateRemove/1/absent", func(w *world, k int) *fixture {
		u := w.newAcc("noncandidate", 10_0000_0000)
		return plain(w.h["neofs"], "innerRingCandidateRemove", atoms{"KEY": u}, chain.Pub(u))
	})
	reg("neofs.setConfig/3/empty", func(w *world, k int) *fixture {
		// toggle the stored value so that every instance is visible
		v := []byte{}
		if k%2 == 1 {
			w.must(w.h["neofs"], w.alpha(), "setConfig", []byte("x"), []byte{}, []byte("filled"))
		} else {
			w.must(w.h["neofs"], w.alpha(), "setConfig", []byte("x"), []byte{}, []byte("filled again"))
		}
		return plain(w.h["neofs"], "setConfig", atoms{}, []byte{}, []byte{}, v)
	})
	variant("neofs.withdraw/2/zero", "neofs.withdraw/2/", setArg(1, int64(0)))
	variant("neofs.withdraw/2/neg", "neofs.withdraw/2/", setArg(1, int64(-1)))
	// neofsid
	variant("neofsid.addKey/2/empty", "neofsid.addKey/2/", setArg(1, []any{}))
	variant("neofsid.removeKey/2/empty", "neofsid.removeKey/2/", setArg(1, []any{}))
	// netmap
	reg("netmap.addNode/1/alphakey", func(w *world, k int) *fixture {
		m := w.c.Members[0]
		return plain(w.h["netmap"], "addNode", atoms{"KEY": m}, node2(chain.Pub(m), 500+w.seq+k, 1))
	})
	reg("netmap.deleteNode/1/absent", func(w *world, k int) *fixture {
		u := w.newAcc("nonnode", 0)
		return plain(w.h["netmap"], "deleteNode", atoms{}, chain.Pub(u))
	})
	variant("netmap.newEpoch/1/zero", "netmap.newEpoch/1/", setArg(0, int64(0)))
	variant("netmap.newEpoch/1/neg", "netmap.newEpoch/1/", setArg(0, int64(-1)))
	reg("netmap.setConfig/3/empty", func(w *world, k int) *fixture {
		w.must(w.h["netmap"], w.alpha(), "setConfig", []byte("x"), []byte{}, []byte(fmt.Sprintf("filled %d", k)))
		return plain(w.h["netmap"], "setConfig", atoms{}, []byte{}, []byte{}, []byte{})
	})
	reg("netmap.subscribeForNewEpoch/1/again", func(w *world, k int) *fixture {
		return plain(w.h["netmap"], "subscribeForNewEpoch", atoms{}, w.h["balance"])
	})
	variant("netmap.updateSnapshotCount/1/neg", "netmap.updateSnapshotCount/1/", setArg(0, int64(-1)))
	variant("netmap.updateSnapshotCount/1/same", "netmap.updateSnapshotCount/1/", func(w *world, fx *fixture) {
		fx.args[0] = fx.args[0].(int64) - 1
	})
	variant("netmap.updateState/2/offline", "netmap.updateState/2/", setArg(0, int64(2)))
	variant("netmap.updateState/2/badstate", "netmap.updateState/2/", setArg(0, int64(0)))
	variant("netmap.updateStateIR/2/offline", "netmap.updateStateIR/2/", setArg(0, int64(2)))
	variant("netmap.updateStateIR/2/badstate", "netmap.updateStateIR/2/", setArg(0, int64(0)))
	// nns
	variant("nns.addRecord/3/emptytxt", "nns.addRecord/3/", setArg(2, ""))
	variant("nns.register/7/noemail", "nns.register/7/", setArg(2, ""))
	variant("nns.renew/2/zero", "nns.renew/2/", setArg(1, int64(0)))
	variant("nns.renew/2/neg", "nns.renew/2/", setArg(1, int64(-1)))
	variant("nns.setAdmin/2/null", "nns.setAdmin/2/", setArg(1, nil))
	variant("nns.setAdmin/2/self", "nns.setAdmin/2/", func(w *world, fx *fixture) { fx.args[1] = fx.atoms["OWNER"].ScriptHash() })
	// (no zero-price variant: setPrice(0) is accepted, after which every register faults in BurnGas(0))
	variant("nns.setPrice/1/neg", "nns.setPrice/1/", setArg(0, int64(-1)))
	variant("nns.transfer/3/data", "nns.transfer/3/", setArg(2, []byte("some data")))
	variant("nns.transfer/3/self", "nns.transfer/3/", func(w *world, fx *fixture) { fx.args[0] = fx.atoms["OWNER"].ScriptHash() })
	variant("nns.updateSOA/6/noemail", "nns.updateSOA/6/", setArg(1, ""))
	// reputation
	reg("reputation.put/3/zero", func(w *world, k int) *fixture {
		return plain(w.h["reputation"], "put", atoms{}, int64(0), []byte{}, []byte{})
	})
	reg("reputation.put/3/neg", func(w *world, k int) *fixture {
		return plain(w.h["reputation"], "put", atoms{}, int64(-1), w.sample.peer, []byte{})
	})
}
