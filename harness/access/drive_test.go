// Package access drives the C03 test matrix printed by TLC from spec/Access.tla
// (Methods x signer-set descriptors x committee sizes) on the real contracts:
// all eleven contracts compiled from the working tree are deployed on ONE
// in-process ledger per committee size, every cell is one real transaction
// whose effect on the WORLD (raw storage + NEF/update counter of every deployed
// contract, native GAS/NEO balances and NEO votes of all tracked accounts,
// notifications) is recorded as one ndjson line for the monitor
// spec/AccessTrace.tla.
package access

import (
	"crypto/sha256"
	"encoding/binary"
	"encoding/hex"
	"encoding/json"
	"fmt"
	"os"
	"path/filepath"
	"regexp"
	"sort"
	"strconv"
	"strings"
	"testing"

	"github.com/nspcc-dev/neo-go/pkg/core/native/nativenames"
	"github.com/nspcc-dev/neo-go/pkg/core/native/noderoles"
	"github.com/nspcc-dev/neo-go/pkg/core/state"
	"github.com/nspcc-dev/neo-go/pkg/core/transaction"
	"github.com/nspcc-dev/neo-go/pkg/crypto/hash"
	"github.com/nspcc-dev/neo-go/pkg/crypto/keys"
	"github.com/nspcc-dev/neo-go/pkg/neotest"
	"github.com/nspcc-dev/neo-go/pkg/util"
	"github.com/nspcc-dev/neo-go/pkg/vm/opcode"
	"github.com/nspcc-dev/neo-go/pkg/vm/stackitem"
	"github.com/nspcc-dev/neo-go/pkg/wallet"
	"github.com/stretchr/testify/require"
	"gopkg.in/yaml.v3"

	"verif/harness/chain"
)

// Cell is one line of TLC's matrix (AccessMC!Cell).
type Cell struct {
	Act  string   `json:"act"` // invoke | verify
	C    string   `json:"c"`
	M    string   `json:"m"`
	A    int      `json:"a"`
	V    string   `json:"v"`
	Safe bool     `json:"safe"`
	Io   bool     `json:"io"` // inert-only argument variant
	Cls  string   `json:"cls"`
	S    []string `json:"S"`
	N    int      `json:"n"`
	Kind string   `json:"kind"`
}

func (c Cell) key() string { return fmt.Sprintf("%s.%s/%d/%s", c.C, c.M, c.A, c.V) }

var contractNames = []string{"alphabet", "audit", "balance", "container", "neofs", "neofsid", "netmap", "nns", "processing", "proxy", "reputation"}

// world is one chain with every contract deployed.
type world struct {
	t   *testing.T
	c   *chain.Chain
	n   int
	h   map[string]util.Uint160      // contract name -> hash of the main deployment
	cur map[string]*neotest.Contract // compiled from the working tree
	old map[string]*neotest.Contract // same sources with the version constant lowered by one
	sub *neotest.Contract            // helper with newEpoch/1
	kc  util.Uint160                 // helper that calls balance.transfer

	ir       []neotest.Signer // keys designated NeoFSAlphabet (a set of their own)
	irMaj    neotest.Signer
	stranger neotest.Signer
	node0    neotest.Signer // storage node present in the current and previous netmap
	cands    [][]byte       // registered NEO candidates
	gas, neo util.Uint160
	alphaIdx int

	seq     int
	tracked []util.Uint160
	sample  struct {
		owner   neotest.Signer
		ownerID []byte
		cid     []byte
		name    string
		peer    []byte
		auditID []byte
		epoch   int64
	}
	lastWorld, lastTok string
	fails              []chain.Rec
	rec                *chain.Recorder
	tid                int
}

func harnessRoot() string {
	if r := os.Getenv("VERIF_HARNESS"); r != "" {
		return r
	}
	return "/verif/harness"
}

// ---- old-version sources: a scratch copy of the tree with Version lowered by one ----

var oldTree string

func versionOf(root string) (int, string) {
	src, err := os.ReadFile(filepath.Join(root, "common", "version.go"))
	if err != nil {
		panic(err)
	}
	get := func(name string) int {
		m := regexp.MustCompile(`(?m)^\s*` + name + `\s*=\s*(\d+)\s*$`).FindSubmatch(src)
		if m == nil {
			panic("version constant " + name + " not found")
		}
		v, _ := strconv.Atoi(string(m[1]))
		return v
	}
	return get("major")*1_000_000 + get("minor")*1_000 + get("patch"), string(src)
}

func prepareOldTree(t *testing.T) string {
	if oldTree != "" {
		return oldTree
	}
	root := chain.RepoRoot()
	dir, err := os.MkdirTemp("", "access-old-")
	require.NoError(t, err)
	v, src := versionOf(root)
	ov := v - 1
	for _, f := range []string{"go.mod", "go.sum"} {
		b, err := os.ReadFile(filepath.Join(root, f))
		require.NoError(t, err)
		require.NoError(t, os.WriteFile(filepath.Join(dir, f), b, 0o644))
	}
	copyTree := func(rel string) {
		require.NoError(t, filepath.Walk(filepath.Join(root, rel), func(p string, info os.FileInfo, err error) error {
			if err != nil {
				return err
			}
			r, _ := filepath.Rel(root, p)
			if info.IsDir() {
				return os.MkdirAll(filepath.Join(dir, r), 0o755)
			}
			if strings.HasSuffix(p, "_test.go") || !(strings.HasSuffix(p, ".go") || strings.HasSuffix(p, ".yml")) {
				return nil
			}
			b, err := os.ReadFile(p)
			if err != nil {
				return err
			}
			return os.WriteFile(filepath.Join(dir, r), b, 0o644)
		}))
	}
	copyTree("common")
	copyTree("contracts")
	rep := func(name string, val int) {
		re := regexp.MustCompile(`(?m)^(\s*` + name + `\s*=\s*)\d+(\s*)$`)
		src = re.ReplaceAllString(src, "${1}"+strconv.Itoa(val)+"${2}")
	}
	rep("major", ov/1_000_000)
	rep("minor", ov/1_000%1_000)
	rep("patch", ov%1_000)
	require.NoError(t, os.WriteFile(filepath.Join(dir, "common", "version.go"), []byte(src), 0o644))
	ov2, _ := versionOf(dir)
	require.Equal(t, ov, ov2, "could not lower the version constant")
	oldTree = dir
	return dir
}

// ---- world construction ----

func multi(t testing.TB, privs []*keys.PrivateKey, m int) neotest.Signer {
	pubs := make(keys.PublicKeys, len(privs))
	for i := range privs {
		pubs[i] = privs[i].PublicKey()
	}
	accs := make([]*wallet.Account, len(privs))
	for i := range privs {
		accs[i] = wallet.NewAccountFromPrivateKey(privs[i])
		require.NoError(t, accs[i].ConvertMultisig(m, pubs.Copy()))
	}
	return neotest.NewMultiSigner(accs...)
}

func (w *world) track(hs ...util.Uint160) {
	w.tracked = append(w.tracked, hs...)
}

func (w *world) newAcc(label string, gas int64) neotest.Signer {
	w.seq++
	s := w.c.NewUser(fmt.Sprintf("%s#%d", label, w.seq), gas)
	w.track(s.ScriptHash())
	return s
}

// must runs a correctly witnessed transaction that builds a pre-state. A failure is not fatal: it is recorded
// (`setupfail` line) and the cells that depend on the pre-state will show what is broken.
func (w *world) must(h util.Uint160, signers []neotest.Signer, method string, args ...any) *chain.Result {
	r := w.c.Run(h, signers, method, args...)
	if !r.Halt {
		w.fails = append(w.fails, chain.Rec{"act": "setupfail", "m": method, "res": "FAULT", "fault": r.Fault,
			"note": "a correctly witnessed call that builds a canonical pre-state failed"})
	}
	return r
}

// alpha is the signer set of the setup transactions that need the Alphabet: BOTH multi-signature accounts of
// the committee sign them, so that building the pre-states does not depend on which threshold the code under
// test asks for - a threshold confusion then shows up in the cells, not as a broken harness.
func (w *world) alpha() []neotest.Signer { return []neotest.Signer{w.c.Alpha, w.c.Cmt} }

func (w *world) hashOf(ctr *neotest.Contract) util.Uint160 {
	return state.CreateContractHash(w.c.Payer.ScriptHash(), ctr.NEF.Checksum, ctr.Manifest.Name)
}

// deploy deploys from the fee payer's account with the witnesses of both committee accounts.
func (w *world) deploy(ctr *neotest.Contract, data any) util.Uint160 {
	nb, err := ctr.NEF.Bytes()
	require.NoError(w.t, err)
	mb, err := json.Marshal(ctr.Manifest)
	require.NoError(w.t, err)
	r := w.c.Run(w.c.E.NativeHash(w.t, nativenames.Management), w.alpha(), "deploy", nb, mb, data)
	if !r.Halt {
		w.fails = append(w.fails, chain.Rec{"act": "setupfail", "m": "deploy " + ctr.Manifest.Name, "res": "FAULT", "fault": r.Fault,
			"note": "deployment witnessed by both committee accounts failed"})
	}
	return w.hashOf(ctr)
}

func (w *world) deployNamed(name string) {
	w.h[name] = w.deploy(w.cur[name], w.deployArgs(name))
	if name != "nns" && name != "neofs" && name != "processing" && name != "alphabet" {
		w.must(w.h["nns"], []neotest.Signer{w.c.Cmt}, "register", name+".neofs", w.c.Cmt.ScriptHash(), "ops@nspcc.io",
			int64(3600), int64(600), int64(10*365*24*3600), int64(3600))
		w.must(w.h["nns"], []neotest.Signer{w.c.Cmt}, "addRecord", name+".neofs", int64(16), w.h[name].StringLE())
	}
}

// renamed returns a copy of the contract under another manifest name (another contract hash).
func renamed(ctr *neotest.Contract, name string) *neotest.Contract {
	m := *ctr.Manifest
	m.Name = name
	return &neotest.Contract{NEF: ctr.NEF, Manifest: &m}
}

func (w *world) deployArgs(name string) any {
	switch name {
	case "nns":
		return []any{[]any{[]any{"neofs", "ops@nspcc.io"}}}
	case "netmap":
		return []any{false, util.Uint160{}, util.Uint160{}, []any{},
			[]any{[]byte("ContainerFee"), int64(1000), []byte("ContainerAliasFee"), int64(500)}}
	case "balance", "neofsid":
		return []any{false, util.Uint160{}, util.Uint160{}}
	case "reputation", "audit":
		return []any{false}
	case "neofs":
		ks := make([]any, len(w.c.Privs))
		for i, p := range w.c.Privs {
			ks[i] = p.PublicKey().Bytes()
		}
		return []any{false, w.hashOf(w.cur["processing"]), ks, []any{
			[]byte("InnerRingCandidateFee"), int64(1_0000_0000), []byte("WithdrawFee"), int64(1000_0000)}}
	case "processing":
		return []any{w.h["neofs"]}
	case "alphabet":
		return []any{false, w.h["netmap"], w.h["proxy"], "Az", int64(w.alphaIdx), int64(w.n)}
	}
	return nil // container, proxy
}

func newWorld(t *testing.T, n int, seed int64, rec *chain.Recorder, tid int) *world {
	c := chain.New(t, n, seed)
	w := &world{t: t, c: c, n: n, h: map[string]util.Uint160{}, cur: map[string]*neotest.Contract{}, old: map[string]*neotest.Contract{},
		rec: rec, tid: tid, alphaIdx: n - 1}
	w.gas = c.E.NativeHash(t, nativenames.Gas)
	w.neo = c.E.NativeHash(t, nativenames.Neo)
	od := prepareOldTree(t)
	for _, name := range contractNames {
		w.cur[name] = c.Compile(name)
		w.old[name] = c.CompileDir(filepath.Join(od, "contracts", name))
	}
	w.sub = c.CompileDir(filepath.Join(harnessRoot(), "contracts", "accesssub"))

	w.deployNamed("nns") // must get id 1
	w.deployNamed("netmap")
	w.deployNamed("balance")
	w.deployNamed("neofsid")
	w.deployNamed("proxy")
	// Container's _deploy registers its TLD, which takes the committee's witness
	w.must(w.h["nns"], []neotest.Signer{c.Cmt}, "registerTLD", "container", "ops@nspcc.io", int64(3600), int64(600), int64(10*365*24*3600), int64(3600))
	w.deployNamed("container")
	w.deployNamed("reputation")
	w.deployNamed("audit")
	w.deployNamed("neofs")
	w.deployNamed("processing")
	w.deployNamed("alphabet")
	w.kc = w.deploy(c.CompileDir(filepath.Join(harnessRoot(), "contracts", "caller")), nil)
	// the NeoFS contract once more, in the notary-disabled mode (votes of the stored keys are collected)
	va := w.deployArgs("neofs").([]any)
	va[0] = true
	w.h["neofs#votes"] = w.deploy(renamed(w.cur["neofs"], w.cur["neofs"].Manifest.Name+" #votes"), va)
	c.FundGAS(w.h["neofs#votes"], 1000_0000_0000)
	// the keys designated NeoFSAlphabet: a set of their own (as on the main chain)
	irPrivs := make([]*keys.PrivateKey, n)
	for i := range irPrivs {
		irPrivs[i] = chain.DetKey(seed, fmt.Sprintf("ir%d", i))
	}
	sort.Slice(irPrivs, func(i, j int) bool { return irPrivs[i].PublicKey().Cmp(irPrivs[j].PublicKey()) < 0 })
	irKeys := make([]any, n)
	for i, p := range irPrivs {
		s := neotest.NewSingleSigner(wallet.NewAccountFromPrivateKey(p))
		w.ir = append(w.ir, s)
		irKeys[i] = p.PublicKey().Bytes()
		c.FundGAS(s.ScriptHash(), 100_0000_0000)
	}
	w.irMaj = multi(t, irPrivs, n/2+1)
	c.FundGAS(w.irMaj.ScriptHash(), 100_0000_0000)
	w.must(c.E.NativeHash(t, nativenames.Designation), []neotest.Signer{c.Cmt}, "designateAsRole", int64(noderoles.NeoFSAlphabet), irKeys)
	c.Skip(1) // the designation is effective from the next block

	w.stranger = c.NewUser("stranger", 1000_0000_0000)
	c.FundGAS(c.Cmt.ScriptHash(), 100_0000_0000)
	for _, m := range c.Members {
		c.FundGAS(m.ScriptHash(), 100_0000_0000)
	}
	// funds held by the governance contracts
	c.FundGAS(w.h["neofs"], 1000_0000_0000)
	c.FundGAS(w.h["alphabet"], 100_0000_0000)
	c.FundNEO(w.h["alphabet"], 100)
	// two registered NEO candidates for alphabet.vote
	for _, s := range []neotest.Signer{c.Members[0], w.ir[0]} {
		r := c.Run(w.neo, []neotest.Signer{s}, "registerCandidate", chain.Pub(s))
		require.True(t, r.Halt, "registerCandidate: %s", r.Fault)
		w.cands = append(w.cands, chain.Pub(s))
	}

	// sample data for the readers and for methods that need a populated chain
	w.node0 = c.NewUser("node0", 100_0000_0000)
	w.must(w.h["netmap"], []neotest.Signer{c.Alpha, w.node0}, "addPeer", nodeBlob(chain.Pub(w.node0), 1))
	w.must(w.h["netmap"], []neotest.Signer{c.Alpha, w.node0}, "addNode", node2(chain.Pub(w.node0), 1, 1))
	w.must(w.h["netmap"], w.alpha(), "newEpoch", int64(1))
	w.must(w.h["netmap"], w.alpha(), "newEpoch", int64(2))
	w.sample.epoch = 2
	w.sample.owner = c.NewUser("sampleowner", 100_0000_0000)
	w.sample.ownerID = ownerID(w.sample.owner.ScriptHash())
	w.must(w.h["balance"], w.alpha(), "mint", w.sample.owner.ScriptHash(), int64(1_000_000_000), []byte("mint"))
	cnr := containerBlob(w.sample.owner.ScriptHash(), 0)
	cid := sha256.Sum256(cnr)
	w.sample.cid = cid[:]
	w.must(w.h["container"], w.alpha(), "put", cnr, make([]byte, 64), chain.Pub(w.sample.owner), []byte{}, true)
	w.must(w.h["container"], w.alpha(), "setEACL", eaclBlob(cid[:], 0), make([]byte, 64), chain.Pub(w.sample.owner), []byte{})
	w.must(w.h["container"], w.alpha(), "addNextEpochNodes", cid[:], int64(0), []any{chain.Pub(w.node0)})
	w.must(w.h["container"], w.alpha(), "commitContainerListUpdate", cid[:], []byte{1})
	w.must(w.h["container"], []neotest.Signer{w.node0}, "putContainerSize", int64(2), cid[:], int64(77), chain.Pub(w.node0))
	w.sample.peer = chain.Pub(w.node0)
	w.must(w.h["reputation"], w.alpha(), "put", int64(2), w.sample.peer, []byte("trust"))
	ab := auditBlob(2, cid[:], chain.Pub(w.ir[0]))
	w.must(w.h["audit"], []neotest.Signer{w.ir[0]}, "put", ab)
	hk := sha256.Sum256(chain.Pub(w.ir[0]))
	w.sample.auditID = append(append([]byte{2}, cid[:]...), hk[:24]...)
	w.sample.name = "sample.neofs"
	w.must(w.h["nns"], []neotest.Signer{w.sample.owner}, "register", w.sample.name, w.sample.owner.ScriptHash(), "ops@nspcc.io",
		int64(3600), int64(600), int64(365*24*3600), int64(3600))
	w.must(w.h["nns"], []neotest.Signer{w.sample.owner}, "addRecord", w.sample.name, int64(16), "sample text")

	for _, name := range contractNames {
		w.track(w.h[name])
	}
	w.track(c.Alpha.ScriptHash(), c.Cmt.ScriptHash(), w.irMaj.ScriptHash(), w.stranger.ScriptHash(), w.node0.ScriptHash(),
		w.sample.owner.ScriptHash())
	for _, s := range w.ir {
		w.track(s.ScriptHash())
	}
	return w
}

// ---- encoders of the binary arguments ----

func ownerID(h util.Uint160) []byte {
	b := append([]byte{0x35}, h.BytesBE()...)
	return append(b, hash.Checksum(b)...)
}

func det(label string, k, n int) []byte {
	var out []byte
	for i := 0; len(out) < n; i++ {
		s := sha256.Sum256([]byte(fmt.Sprintf("%s|%d|%d", label, k, i)))
		out = append(out, s[:]...)
	}
	return out[:n]
}

func containerBlob(owner util.Uint160, k int) []byte {
	v := det("container", k, 100)
	v[1] = 0
	copy(v[6:], ownerID(owner))
	return v
}

func eaclBlob(cid []byte, k int) []byte {
	e := det("eacl", k, 50)
	e[1] = 0
	copy(e[6:], cid)
	return e
}

func nodeBlob(pub []byte, k int) []byte {
	ni := make([]byte, 66)
	ni[0] = byte(k)
	ni[65] = byte(k >> 8)
	copy(ni[2:], pub)
	return ni
}

func node2(pub []byte, k int, st int64) stackitem.Item {
	return stackitem.NewStruct([]stackitem.Item{
		stackitem.NewArray([]stackitem.Item{stackitem.Make(fmt.Sprintf("grpcs://192.0.2.%d:8090", k%250+1))}),
		stackitem.NewMapWithValue([]stackitem.MapElement{{Key: stackitem.Make("Capacity"), Value: stackitem.Make(strconv.Itoa(100 + k))}}),
		stackitem.NewByteArray(pub), stackitem.Make(st)})
}

func auditBlob(epoch uint64, cid, key []byte) []byte {
	b := []byte{0x0a, 0x00, 0x11}
	var e [8]byte
	binary.LittleEndian.PutUint64(e[:], epoch)
	b = append(b, e[:]...)
	b = append(b, 0x1a, byte(len(cid)+2), 0x0a, byte(len(cid)))
	b = append(b, cid...)
	b = append(b, 0x22, byte(len(key)))
	return append(b, key...)
}

// ---- the world digest ----

func (w *world) contracts() []util.Uint160 {
	var hs []util.Uint160
	for id := int32(1); ; id++ {
		h, err := w.c.BC.GetContractScriptHash(id)
		if err != nil {
			return hs
		}
		hs = append(hs, h)
	}
}

func (w *world) digest() (string, string) {
	hs := w.contracts()
	hh := sha256.New()
	hh.Write([]byte(w.c.StorageDigest(hs...)))
	for _, h := range hs {
		cs := w.c.BC.GetContractState(h)
		fmt.Fprintf(hh, "|%s:%d:%d", h.StringLE(), cs.UpdateCounter, cs.NEF.Checksum)
	}
	world := hex.EncodeToString(hh.Sum(nil))[:24]
	th := sha256.New()
	member := map[util.Uint160]bool{}
	for _, m := range w.c.Members {
		member[m.ScriptHash()] = true
	}
	seen := map[util.Uint160]bool{}
	for _, a := range append(append([]util.Uint160{}, hs...), w.tracked...) {
		if seen[a] || a == w.c.Payer.ScriptHash() {
			continue
		}
		seen[a] = true
		// the single-key accounts of the validators receive network fees and block rewards in every block
		if !member[a] {
			fmt.Fprintf(th, "|g%s:%d", a.StringLE(), w.c.GAS(a))
		}
		fmt.Fprintf(th, "|n%s:%d", a.StringLE(), w.c.NEO(a))
	}
	for _, h := range hs { // NEO votes of the contracts (alphabet.vote)
		st, err := w.c.Call(w.neo, "getAccountState", h)
		if err == nil && len(st) == 1 {
			if arr, ok := st[0].Value().([]stackitem.Item); ok && len(arr) > 2 {
				fmt.Fprintf(th, "|v%s:%v", h.StringLE(), chain.ItemJSON(arr[2]))
			}
		}
	}
	return world, hex.EncodeToString(th.Sum(nil))[:24]
}

// ---- recording ----

func (w *world) emit(r chain.Rec) {
	def := chain.Rec{"t": w.tid, "act": "", "c": "", "m": "", "a": 0, "v": "", "safe": false, "io": false, "msafe": false, "cls": "safe",
		"S": []string{}, "S0": []string{}, "n": w.n, "res": "HALT", "ret": "other", "ntf": false, "nntf": 0, "valid": true,
		"wch": false, "tch": false, "kind": "", "fault": "", "note": ""}
	for k, v := range r {
		def[k] = v
	}
	if _, ok := def["obs"]; !ok {
		def["obs"] = map[string]any{"world": w.lastWorld, "tok": w.lastTok}
	}
	w.rec.Emit(def)
}

// sync emits a free `setup` line when the chain has moved since the last recorded line
// (fixtures are built between cells by ordinary, correctly witnessed transactions).
func (w *world) sync() (string, string) {
	for _, f := range w.fails {
		w.emit(f)
	}
	w.fails = nil
	wd, tk := w.digest()
	if wd != w.lastWorld || tk != w.lastTok {
		w.lastWorld, w.lastTok = wd, tk
		w.emit(chain.Rec{"act": "setup"})
	}
	return wd, tk
}

// ---- signer sets ----

var realAtoms = []string{"ALPHA", "CMT", "M1", "IRMAJ", "IR1", "X", "KEY", "OWNER", "ADMIN"}
var pseudoAtoms = map[string]bool{"ARGSIG": true, "VIAGAS": true, "VIANEO": true, "VIACALLER": true}

func (w *world) atom(a string, fx *fixture) neotest.Signer {
	switch a {
	case "ALPHA":
		return w.c.Alpha
	case "CMT":
		return w.c.Cmt
	case "M1":
		return w.c.Members[0]
	case "IRMAJ":
		return w.irMaj
	case "IR1":
		return w.ir[0]
	case "X":
		return w.stranger
	}
	if fx != nil {
		return fx.atoms[a]
	}
	return nil
}

// signers maps a descriptor to real signers and returns the set of atoms whose account signs
// (atoms that denote the same account are all listed) plus the pseudo atoms of the descriptor.
func (w *world) signers(S []string, fx *fixture) ([]neotest.Signer, []string, map[string]bool) {
	var out []neotest.Signer
	signing := map[util.Uint160]bool{}
	set := map[string]bool{}
	for _, a := range S {
		if pseudoAtoms[a] {
			set[a] = true
			continue
		}
		s := w.atom(a, fx)
		require.NotNil(w.t, s, "no signer for atom %s", a)
		out = append(out, s)
		signing[s.ScriptHash()] = true
	}
	for _, a := range realAtoms {
		if s := w.atom(a, fx); s != nil && signing[s.ScriptHash()] {
			set[a] = true
		}
	}
	names := make([]string, 0, len(set))
	for a := range set {
		names = append(names, a)
	}
	sort.Strings(names)
	return chain.Dedup(out), names, set
}

func retOf(r *chain.Result) string {
	if r.Halt && len(r.Stack) == 1 && r.Stack[0].Type() == stackitem.BooleanT {
		b, _ := r.Stack[0].TryBool()
		return strconv.FormatBool(b)
	}
	return "other"
}

// ---- cells ----

type tableEntry struct {
	setup func(w *world, k int) *fixture
}

type fixture struct {
	target util.Uint160
	method string
	args   []any
	atoms  map[string]neotest.Signer
	// script overrides the plain call for descriptors with pseudo atoms (nil = plain call)
	call func(set map[string]bool) (util.Uint160, string, []any)
	used bool
}

type methodState struct {
	fx *fixture
	k  int
}

func (w *world) fixtureOf(ms *methodState, e *tableEntry) *fixture {
	if ms.fx == nil || ms.fx.used {
		ms.k++
		ms.fx = e.setup(w, ms.k)
	}
	return ms.fx
}

func (w *world) runInvoke(cell Cell, e *tableEntry, ms *methodState, msafe bool) {
	fx := w.fixtureOf(ms, e)
	sg, names, set := w.signers(cell.S, fx)
	h, method, args := fx.target, fx.method, fx.args
	if fx.call != nil {
		h, method, args = fx.call(set)
	}
	w.sync()
	r := w.c.Run(h, sg, method, args...)
	wd, tk := w.digest()
	wch, tch := wd != w.lastWorld, tk != w.lastTok
	w.lastWorld, w.lastTok = wd, tk
	ret := retOf(r)
	if wch || tch || len(r.Events) > 0 || (r.Halt && ret != "false") {
		fx.used = true
	}
	w.emit(chain.Rec{"act": "invoke", "c": cell.C, "m": cell.M, "a": cell.A, "v": cell.V, "safe": cell.Safe, "io": cell.Io, "msafe": msafe,
		"cls": cell.Cls, "S": names, "S0": cell.S, "res": r.Res(), "ret": ret, "ntf": len(r.Events) > 0, "nntf": len(r.Events),
		"wch": wch, "tch": tch, "kind": cell.Kind, "fault": r.Fault})
}

// runVerify uses verify() as the witness of the contract's own account.
func (w *world) runVerify(cell Cell) {
	h := w.h[cell.C]
	sg, names, _ := w.signers(cell.S, nil)
	w.sync()
	cs := neotest.NewContractSigner(h, func(*transaction.Transaction) []any { return []any{} })
	all := append([]neotest.Signer{w.c.Payer, cs}, sg...)
	tx := transaction.New([]byte{byte(opcode.PUSH1)}, 0)
	tx.Nonce = neotest.Nonce()
	tx.ValidUntilBlock = w.c.E.Chain.BlockHeight() + 1
	for _, acc := range all {
		tx.Signers = append(tx.Signers, transaction.Signer{Account: acc.ScriptHash(), Scopes: transaction.Global})
	}
	neotest.AddNetworkFee(w.t, w.c.E.Chain, tx, all...)
	tx.NetworkFee += 1_0000_0000
	tx.SystemFee = 1_0000_0000
	for _, acc := range all {
		require.NoError(w.t, acc.SignTx(w.c.E.Chain.GetConfig().Magic, tx))
	}
	verr := w.c.E.Chain.VerifyTx(tx)
	valid := verr == nil
	res, nntf, fault := "HALT", 0, ""
	if valid {
		w.c.E.AddNewBlock(w.t, tx)
		aer := w.c.E.GetTxExecResult(w.t, tx.Hash())
		if !aer.VMState.HasFlag(1) {
			res = "FAULT"
		}
		nntf = len(aer.Events)
	} else {
		fault = verr.Error()
	}
	// second channel: what a plain invocation with these signers returns
	ret := "other"
	st, err := w.c.CallAs(h, append([]neotest.Signer{w.c.Payer}, sg...), "verify")
	if err == nil && len(st) == 1 {
		if b, e := st[0].TryBool(); e == nil {
			ret = strconv.FormatBool(b)
		}
	} else if err != nil {
		fault += " | plain invocation: " + err.Error()
	}
	wd, tk := w.digest()
	wch, tch := wd != w.lastWorld, tk != w.lastTok
	w.lastWorld, w.lastTok = wd, tk
	w.emit(chain.Rec{"act": "verify", "c": cell.C, "m": "verify", "a": 0, "safe": true, "msafe": true, "cls": cell.Cls, "S": names, "S0": cell.S,
		"res": res, "ret": ret, "ntf": nntf > 0, "nntf": nntf, "valid": valid, "wch": wch, "tch": tch, "kind": cell.Kind, "fault": fault})
}

// ---- manifest checks ----

type cfgYml struct {
	Safe []string `yaml:"safemethods"`
}

func (w *world) manifestLines(tbl map[string]bool, tblSafe map[string]bool, emit bool) map[string]bool {
	msafe := map[string]bool{}
	inManifest := map[string]bool{}
	for _, name := range contractNames {
		var cfg cfgYml
		b, err := os.ReadFile(filepath.Join(chain.RepoRoot(), "contracts", name, "config.yml"))
		require.NoError(w.t, err)
		require.NoError(w.t, yaml.Unmarshal(b, &cfg))
		cfgSafe := map[string]bool{}
		for _, s := range cfg.Safe {
			cfgSafe[s] = true
		}
		for _, md := range w.cur[name].Manifest.ABI.Methods {
			if strings.HasPrefix(md.Name, "_") {
				continue
			}
			k := fmt.Sprintf("%s.%s/%d", name, md.Name, len(md.Parameters))
			inManifest[k] = true
			msafe[k] = md.Safe
			// the compiled manifest marks exactly the methods listed in config.yml as safe
			// (overloads are listed under their exported name: putMeta -> put, listNodesEpoch -> listNodes, renewDefault -> renew)
			note := ""
			if md.Safe != cfgSafe[md.Name] {
				note = fmt.Sprintf("manifest safe=%v, config.yml safemethods=%v", md.Safe, cfgSafe[md.Name])
			}
			if !emit {
				continue
			}
			act := "declared"
			if !tbl[k] {
				act = "uncovered"
			}
			w.emit(chain.Rec{"act": act, "c": name, "m": md.Name, "a": len(md.Parameters), "safe": tblSafe[k], "msafe": md.Safe,
				"valid": md.Safe == cfgSafe[md.Name], "note": note})
		}
	}
	var ks []string
	for k := range tbl {
		ks = append(ks, k)
	}
	sort.Strings(ks)
	for _, k := range ks {
		if !inManifest[k] && emit {
			p := strings.SplitN(k, ".", 2)
			q := strings.SplitN(p[1], "/", 2)
			a, _ := strconv.Atoi(q[1])
			w.emit(chain.Rec{"act": "missing", "c": p[0], "m": q[0], "a": a, "note": "method of the table is not in the compiled manifest"})
		}
	}
	return msafe
}

// traps: the witness cells of the defects found by this check are executed on every chain,
// also where the methods are sampled
var traps = map[string]bool{"balance.transferX/4/": true, "neofs.setConfig/3/votes": true}

func TestDrive(t *testing.T) {
	out := os.Getenv("VERIF_OUT")
	if out == "" {
		t.Skip("VERIF_OUT not set")
	}
	seed, _ := strconv.ParseInt(os.Getenv("VERIF_SEED"), 10, 64)
	var cells []Cell
	data, err := os.ReadFile(os.Getenv("VERIF_SCEN"))
	require.NoError(t, err)
	require.NoError(t, json.Unmarshal(data, &cells))
	n, _ := strconv.Atoi(os.Getenv("VERIF_ACCESS_N"))
	require.NotZero(t, n, "VERIF_ACCESS_N")
	sample, _ := strconv.Atoi(os.Getenv("VERIF_ACCESS_SAMPLE")) // keep every sample-th method only (0/1 = all)
	defer func() {
		if oldTree != "" {
			os.RemoveAll(oldTree)
		}
	}()

	rec := chain.NewRecorder(t, out)
	w := newWorld(t, n, seed, rec, n)
	w.lastWorld, w.lastTok = w.digest()
	w.emit(chain.Rec{"act": "reset"})

	// group the cells of this committee size by method
	type group struct {
		first Cell
		cells []Cell
	}
	groups := map[string]*group{}
	var order []string
	tbl := map[string]bool{}
	tblSafe := map[string]bool{}
	var verifies []Cell
	for _, c := range cells {
		if c.Act == "invoke" {
			k := fmt.Sprintf("%s.%s/%d", c.C, c.M, c.A)
			tbl[k] = true
			tblSafe[k] = c.Safe
		}
		if c.N != n {
			continue
		}
		if c.Act == "verify" {
			verifies = append(verifies, c)
			continue
		}
		g := groups[c.key()]
		if g == nil {
			g = &group{first: c}
			groups[c.key()] = g
			order = append(order, c.key())
		}
		g.cells = append(g.cells, c)
	}
	sort.Strings(order)
	msafe := w.manifestLines(tbl, tblSafe, os.Getenv("VERIF_NOTRAPS") == "")

	rank := map[string]int{"inert": 0, "safe": 0, "unspecified": 1, "succeed": 2}
	nofx := 0
	for gi, k := range order {
		g := groups[k]
		if sample > 1 && (gi+int(seed))%sample != 0 && !traps[k] {
			continue
		}
		mk := fmt.Sprintf("%s.%s/%d", g.first.C, g.first.M, g.first.A)
		if _, ok := msafe[mk]; !ok {
			continue // reported as `missing`
		}
		var e *tableEntry
		if g.first.Safe {
			e = w.safeEntry(g.first)
		} else {
			e = fixtures[k]
		}
		if e == nil {
			nofx++
			w.emit(chain.Rec{"act": "uncovered", "c": g.first.C, "m": g.first.M, "a": g.first.A, "v": g.first.V, "safe": g.first.Safe,
				"msafe": msafe[mk], "note": "no canonical scenario in harness/access"})
			continue
		}
		// insufficient signer sets first (they must not change anything), the sufficient ones last;
		// cells whose signer sets are the same accounts are one experiment
		sort.SliceStable(g.cells, func(i, j int) bool {
			if rank[g.cells[i].Kind] != rank[g.cells[j].Kind] {
				return rank[g.cells[i].Kind] < rank[g.cells[j].Kind]
			}
			return strings.Join(g.cells[i].S, ",") < strings.Join(g.cells[j].S, ",")
		})
		ms := &methodState{}
		done := map[string]bool{}
		for _, c := range g.cells {
			sk := strings.Join(c.S, ",")
			if done[sk] {
				continue
			}
			done[sk] = true
			w.runInvoke(c, e, ms, msafe[mk])
		}
	}
	sort.SliceStable(verifies, func(i, j int) bool {
		return verifies[i].C+strings.Join(verifies[i].S, ",") < verifies[j].C+strings.Join(verifies[j].S, ",")
	})
	done := map[string]bool{}
	for _, c := range verifies {
		sk := c.C + "|" + strings.Join(c.S, ",")
		if done[sk] || (sample > 1 && false) {
			continue
		}
		done[sk] = true
		w.runVerify(c)
	}
	rec.Close()
	stats, _ := json.Marshal(map[string]any{"lines": rec.N, "scenarios": 1, "acts": rec.Acts, "nofixture": nofx})
	fmt.Println("DRIVER-STATS " + string(stats))
}
