#!/usr/bin/env python3
"""usage: run.py <name>...   applies one mutation to a fresh scratch worktree of /repo and runs ./check"""
import subprocess, sys, os, shutil, time
F='contracts/netmap/contract.go'
FIX=[("	if count < 0 {\n		panic(\"count must be positive\")","	if count < 1 {\n		panic(\"count must be positive\")"),
     ("k < curEpoch-count; k++ {","k <= curEpoch-count; k++ {")]
M={
 # name: (property, base fixed?, [(old,new)...])
 'm01_equal_epoch': ('C06', False, [("if epochNum <= currentEpoch {","if epochNum < currentEpoch {")]),
 'm02_fanout_first_only': ('C06', False, [("		contract.Call(contractHash, cleanupEpochMethod, contract.All, epoch)\n","		contract.Call(contractHash, cleanupEpochMethod, contract.All, epoch)\n		break\n")]),
 'm03_maintenance_filtered': ('C06', False, [("if item.State != nodestate.Offline {","if item.State == nodestate.Online {")]),
 'm04_no_tick_height': ('C06', False, [("	storage.Put(ctx, snapshotBlockKey, ledger.CurrentIndex())\n","	_ = ledger.CurrentIndex()\n")]),
 'm05_double_subscription': ('C06', False, [("		if contract.Equals(raw) {\n			return\n		}\n","		if contract.Equals(raw) && num > 200 {\n			return\n		}\n")]),
 'm06_no_newepoch_event': ('C06', False, [("	runtime.Notify(\"NewEpoch\", epochNum)\n","")]),
 'm07_fill_uses_old_epoch': ('C06', False, [("	fillNetmap(ctx, epochNum)\n","	fillNetmap(ctx, currentEpoch+1)\n")]),
 'm08_update_skips_structured': ('C07', False, [("		node := std.Deserialize(raw).(Node2)\n		node.State = state\n		storage.Put(ctx, storageKey, std.Serialize(node))\n","		node := std.Deserialize(raw).(Node2)\n		node.State = state\n")]),
 'm09_remove_legacy_only': ('C07', False, [("	storage.Delete(ctx, storageKey)\n	storageKey = append([]byte(node2CandidatePrefix), key...)\n	storage.Delete(ctx, storageKey)\n","	storage.Delete(ctx, storageKey)\n")]),
 'm10_addnode_no_key_witness': ('C07', False, [("	common.CheckWitness(n.Key)\n	common.CheckAlphabetWitness()\n\n	var key = append","	common.CheckAlphabetWitness()\n\n	var key = append")]),
 'm11_unknown_state_accepted': ('C07', False, [("	default:\n		panic(\"unsupported state\")\n","	default:\n		updateNetmapState(ctx, publicKey, state)\n")]),
 'm12_missing_peer_accepted': ('C07', False, [("	if !present {\n		panic(\"peer is missing\")\n	}\n","	_ = present\n")]),
 'm13_addpeer_keeps_state': ('C07', False, [("	addToNetmap(ctx, publicKey, Node{\n		BLOB:  nodeInfo,\n		State: nodestate.Online,\n	})\n}\n\n// AddNode adds","	st := nodestate.Online\n	if raw := storage.Get(ctx, append(candidatePrefix, publicKey...)); raw != nil {\n		st = std.Deserialize(raw.([]byte)).(Node).State\n	}\n	addToNetmap(ctx, publicKey, Node{\n		BLOB:  nodeInfo,\n		State: st,\n	})\n}\n\n// AddNode adds")]),
 'm14_snapshot_index': ('C08', True, [("needID := (id - diff + count) % count","needID := (id + diff) % count")]),
 'm15_tick_drops_nothing': ('C08', True, [("	if epochNum > snapCount {\n		dropNetmap(ctx, epochNum-snapCount)\n	}\n","")]),
 'm16_k1_step_off_by_one': ('C08', True, [("			step = id - count + 1\n","			step = id - count\n")]),
 'm17_grow_moves_wrong_lower': ('C08', True, [("		lower := diff + id + 1\n","		lower := diff + id + 2\n")]),
 'm18_shrink_keeps_tail_slots': ('C08', True, [("		delStart, delFinish = count, oldCount\n","		delStart, delFinish = count+1, oldCount\n")]),
 'm19_only_fix1': ('C08', False, [FIX[1]]),
 'm20_only_fix2': ('C08', False, [FIX[0]]),
 # behaviour-preserving refactorings
 'r01_refactor': ('ALL', True, [
    ("	id = (id + 1) % snapCount\n","	id++\n	if id >= snapCount {\n		id -= snapCount\n	}\n"),
    ("	for _, item := range netmap {\n		if item.State != nodestate.Offline {\n			result = append(result, item)\n		}\n	}\n","	for i := 0; i < len(netmap); i++ {\n		if netmap[i].State == nodestate.Offline {\n			continue\n		}\n		result = append(result, netmap[i])\n	}\n"),
    ("func moveSnapshot(ctx storage.Context, from, to int) {\n	keyFrom := snapshotKeyPrefix + string([]byte{byte(from)})\n	keyTo := snapshotKeyPrefix + string([]byte{byte(to)})\n	data := storage.Get(ctx, keyFrom)\n	storage.Put(ctx, keyTo, data)\n}","func snapshotKey(i int) string {\n	return snapshotKeyPrefix + string([]byte{byte(i)})\n}\n\nfunc moveSnapshot(ctx storage.Context, from, to int) {\n	storage.Put(ctx, snapshotKey(to), storage.Get(ctx, snapshotKey(from)))\n}"),
    ("	switch state {\n	case nodestate.Offline:\n		removeFromNetmap(ctx, publicKey)\n		runtime.Log(\"remove storage node from the network map\")\n	case nodestate.Online, nodestate.Maintenance:\n		updateNetmapState(ctx, publicKey, state)\n		runtime.Log(\"update state of the network map candidate\")\n	default:\n		panic(\"unsupported state\")\n	}\n","	if state == nodestate.Offline {\n		removeFromNetmap(ctx, publicKey)\n	} else if state == nodestate.Online || state == nodestate.Maintenance {\n		updateNetmapState(ctx, publicKey, state)\n	} else {\n		panic(\"unsupported node state\")\n	}\n"),
  ]),
}
def main():
    for name in sys.argv[1:]:
        prop, fixed, reps = M[name]
        wt='/tmp/netmap-mut-'+name
        subprocess.run(['git','-C','/repo','worktree','remove','--force',wt],capture_output=True)
        subprocess.run(['git','-C','/repo','worktree','add',wt,'HEAD'],capture_output=True,check=True)
        try:
            p=os.path.join(wt,F); s=open(p).read()
            for old,new in (FIX if fixed else [])+reps:
                assert s.count(old)==1, (name, old, s.count(old))
                s=s.replace(old,new)
            open(p,'w').write(s)
            props=['C06','C07','C08'] if prop=='ALL' else [prop]
            for pr in props:
                t0=time.time()
                env=dict(os.environ, VERIF_REPO=wt, VERIF_SEED=os.environ.get('VERIF_SEED','1'))
                r=subprocess.run(['./check',pr,'--tier','quick'],cwd='/verif',env=env,capture_output=True,text=True)
                out=r.stdout+r.stderr
                viol=[l for l in out.splitlines() if l.startswith('VIOLATION')]
                preds=sorted(set(l.split('pred=')[1].split()[0]+'/'+l.split('act=')[1].split()[0] for l in viol))
                drift=[l for l in out.splitlines() if l.startswith('DRIFT')]
                inc=[l for l in out.splitlines() if 'INCONCLUSIVE' in l or 'Traceback' in l]
                print('RESULT %s check=%s exit=%d wall=%.0fs violations=%d preds=%s drift=%s %s' % (name,pr,r.returncode,time.time()-t0,len(viol),preds[:6],drift[:1],inc[:1]),flush=True)
                if inc: print(out[-1500:])
        finally:
            subprocess.run(['git','-C','/repo','worktree','remove','--force',wt],capture_output=True)
main()
