#!/usr/bin/env python3
"""Hand mutations of the contract sources used to show that ./check X01 can fail (run from /verif):
   python3 notes/reports/fschain-mutations.py [name ...]
Each mutation is applied to a scratch worktree of /repo (never to /repo), the check runs with VERIF_REPO pointing at it,
the worktree is removed afterwards. Prints one line per mutation: name, exit code, the predicates that fired."""
import os, re, subprocess, sys, shutil

def sub(path, old, new, count=1):
    def f(root):
        p = os.path.join(root, path)
        s = open(p).read()
        assert s.count(old) >= 1, (path, old)
        open(p, "w").write(s.replace(old, new, count))
    return f

BAL, CN, NM, AL, CM = ("contracts/balance/contract.go", "contracts/container/contract.go", "contracts/netmap/contract.go",
                       "contracts/alphabet/contract.go", "common/transfer.go")
MUT = {
  # Balance.NewEpoch ignores a lock that expires exactly at the tick's epoch
  "M1-release-off-by-one": [sub(BAL, "if epochNum >= acc.Until {", "if epochNum > acc.Until {")],
  # Container.NewEpoch sweep off by one
  "M2-sweep-off-by-one": [sub(CN, "if epoch-n.(int) > cst.TotalCleanupDelta {", "if epoch-n.(int) >= cst.TotalCleanupDelta {")],
  # Netmap fan-out skips the last subscriber once there are more than two
  "M3-fanout-skips-last": [sub(NM, """	for iterator.Next(it) {
		contractHash := interop.Hash160(iterator.Value(it).([]byte)[1:]) // one byte is for number prefix
		contract.Call(contractHash, cleanupEpochMethod, contract.All, epoch)
	}""", """	var hs []interop.Hash160
	for iterator.Next(it) {
		hs = append(hs, interop.Hash160(iterator.Value(it).([]byte)[1:]))
	}
	n := len(hs)
	if n > 2 {
		n--
	}
	for i := 0; i < n; i++ {
		contract.Call(hs[i], cleanupEpochMethod, contract.All, epoch)
	}""")],
  # Netmap fan-out goes on after a failed subscriber (try/catch-like pattern)
  "M4-fanout-catches": [sub(NM, """		contract.Call(contractHash, cleanupEpochMethod, contract.All, epoch)
	}
}""", """		callSubscriber(contractHash, epoch)
	}
}

func callSubscriber(h interop.Hash160, epoch int) {
	defer func() {
		_ = recover()
	}()
	contract.Call(h, cleanupEpochMethod, contract.All, epoch)
}""")],
  # put charges before the tombstone check and then returns instead of faulting
  "M5-charge-before-tombstone": [sub(CN, """	if storage.Get(ctx, append([]byte{deletedKeyPrefix}, []byte(containerID)...)) != nil {
		panic(cst.ErrorDeleted)
	}
	neofsIDContractAddr""", """	neofsIDContractAddr"""),
      sub(CN, """	addContainer(ctx, containerID, ownerID, cnr)
""", """	if storage.Get(ctx, append([]byte{deletedKeyPrefix}, []byte(containerID)...)) != nil {
		return
	}
	addContainer(ctx, containerID, ownerID, cnr)
""")],
  # addKey skipped for named containers
  "M6-addkey-skipped": [sub(CN, "if len(token) == 0 { // if container created", "if len(token) == 0 && name == \"\" { // if container created")],
  # container fee transfers carry the unlock prefix
  "M7a-wrong-details-prefix": [sub(CM, "return append(containerFeePrefix, cid...)", "return append(unlockPrefix, cid...)")],
  # unlock details carry the lock's `until` instead of the epoch of the tick
  "M7b-unlock-details-until": [sub(BAL, "details := common.UnlockTransferDetails(epochNum)", "details := common.UnlockTransferDetails(acc.Until)")],
  # duplicate subscriptions are not recognised (index byte compared as part of the hash)
  "M8-subscribe-duplicates": [sub(NM, "raw := iterator.Value(it).([]byte)[1:] // 1 byte is an index", "raw := iterator.Value(it).([]byte)")],
  # alphabet.vote does not compare the epoch
  "M9-vote-any-epoch": [sub(AL, """	if epoch != curEpoch {
		panic("invalid epoch")
	}""", """	if epoch > curEpoch {
		panic("invalid epoch")
	}""")],
  # the fee loop pays all Alphabet nodes but the last
  "M10-fee-skips-last-node": [sub(CN, "	for _, node := range alphabet {\n		to := contract.CreateStandardAccount(node)", "	for i, node := range alphabet {\n		if i > 0 && i == len(alphabet)-1 {\n			break\n		}\n		to := contract.CreateStandardAccount(node)")],
  # the alias fee is charged only when the domain is registered by this put
  "M11-alias-fee-on-register-only": [sub(CN, "	if name != \"\" {\n		aliasFee :=", "	if name != \"\" && needRegister {\n		aliasFee :=")],
  # only the first expired lock is released by a tick
  "M12-release-first-only": [sub(BAL, """			token.transfer(ctx, addr, acc.Parent, acc.Balance, true, details)
""", """			token.transfer(ctx, addr, acc.Parent, acc.Balance, true, details)
			break
""")],
  # vote ignores the contract's index
  "M13-vote-first-candidate": [sub(AL, "candidate := candidates[index%len(candidates)]", "candidate := candidates[index/len(candidates)]")],
  # subscribers are told the previous epoch
  "M14-fanout-previous-epoch": [sub(NM, "	cleanup(ctx, epochNum)\n\n	runtime.Notify", "	cleanup(ctx, epochNum-1)\n\n	runtime.Notify")],
  # innerRingList reads the designation of the current block instead of the next one (stale by one designation)
  "M15-innerring-stale": [sub("common/ir.go", "return roles.GetDesignatedByRole(roles.NeoFSAlphabet, uint32(blockHeight+1))",
                              "return roles.GetDesignatedByRole(roles.NeoFSAlphabet, uint32(blockHeight))")],
  # behaviour-preserving: the fan-out runs before the node lists are filled (subscribers never read them)
  "R1-fanout-earlier": [sub(NM, "	fillNetmap(ctx, epochNum)\n", "	cleanup(ctx, epochNum)\n	fillNetmap(ctx, epochNum)\n"),
                        sub(NM, "	// make clean up routines in other contracts\n	cleanup(ctx, epochNum)\n", "")],
  # behaviour-preserving: the charge is computed once, the balance is read after the fees
  "R2-put-reordered-reads": [sub(CN, """	balance := contract.Call(balanceContractAddr, "balanceOf", contract.ReadOnly, from).(int)
	if name != "" {""", """	if name != "" {"""),
      sub(CN, """	if balance < containerFee*len(alphabet) {""", """	need := len(alphabet) * containerFee
	balance := contract.Call(balanceContractAddr, "balanceOf", contract.ReadOnly, from).(int)
	if !(balance >= need) {""")],
}

def main():
    names = sys.argv[1:] or list(MUT)
    tier = os.environ.get("MUT_TIER", "quick")
    for n in names:
        wt = "/tmp/fschain-wt-" + n
        subprocess.run(["git", "-C", "/repo", "worktree", "remove", "--force", wt], capture_output=True)
        subprocess.run(["git", "-C", "/repo", "worktree", "add", "--detach", wt, "HEAD"], check=True, capture_output=True)
        try:
            for f in MUT[n]:
                f(wt)
            env = dict(os.environ, VERIF_REPO=wt, PYTHONPATH="lib")
            p = subprocess.run([sys.executable, "-c", "import sys; sys.path.insert(0,'lib'); import vcheck as V, fam_fschain;\n"
                                "try:\n rc = fam_fschain.run('X01', '%s', int(__import__('os').environ.get('VERIF_SEED', '1')))\n"
                                "except V.Inconclusive as e:\n print('INCONCLUSIVE', e); rc = 2\nsys.exit(rc)" % tier],
                               cwd="/verif", env=env, capture_output=True, text=True)
            out = p.stdout + p.stderr
            preds = sorted(set(re.findall(r"VIOLATION .*?pred=(\S+) act=(\S+)", out)))
            drift = re.findall(r"DRIFT: (\d+) recorded", out)
            nviol = len(re.findall(r"^VIOLATION", out, re.M))
            print("%-32s exit=%d violations(lines)=%d preds=%s drift=%s" % (n, p.returncode, nviol, preds, drift), flush=True)
            if p.returncode == 2:
                print(out[-1500:])
        finally:
            subprocess.run(["git", "-C", "/repo", "worktree", "remove", "--force", wt], capture_output=True)
            shutil.rmtree(wt, ignore_errors=True)

if __name__ == "__main__":
    main()
